package main

// C25, differential part: every exported function and method of package
// builtin that wraps a function of the standard library (classes
// direct-wrapper and guarded-wrapper of checks/C25_wrappers.json, which
// gofacts ties to the code: Facts_builtinapi) is compared with the function
// its documentation names, on boundary-rich inputs enumerated per parameter
// role: result and error-ness must agree, a panic must be matched by a panic.
// gofacts reads the keys of diffTable below, so a wrapper without an entry
// here is a broken obligation; the sweep reports it as well.
//
// The pools are built from the failure classes, not from known failures:
//   strings     every string of at most two atoms out of ASCII, multi-byte
//               characters of every length, U+FFFD itself and every kind of
//               invalid UTF-8 (lone continuation bytes, truncated sequences,
//               0xFE/0xFF, overlong forms, surrogates, beyond U+10FFFF),
//               crossed with patterns / cutsets of at most two atoms;
//   numbers     sign x prefix x digits x suffix (empty digits, sign only,
//               doubled signs, spaces, underscores, base prefixes, non-ASCII
//               digits), for every base from -1 to 37 and a few absurd ones,
//               the boundaries of every bit size written in every base, very
//               long digit strings;
//   floats      decimal / hexadecimal syntax, exponents at the overflow and
//               underflow boundaries, halfway cases, inf/nan spellings;
//   times       instants with zones, far years, leap days, DST gaps, monotonic
//               readings; layouts; durations at the int64 boundaries;
//   regexps     expressions with empty matches, groups, anchors and classes on
//               the string pool.

import (
	"bytes"
	"crypto/hmac"
	"crypto/md5"
	"crypto/sha1"
	"crypto/sha256"
	"encoding/base64"
	"encoding/hex"
	"encoding/json"
	"fmt"
	"math"
	"math/big"
	"os"
	"reflect"
	"regexp"
	"sort"
	"strconv"
	"strings"
	"time"
	"unicode/utf8"
	. "verif/harness/hlib"

	"github.com/open2b/scriggo/builtin"
	"github.com/open2b/scriggo/native"
	"gopkg.in/yaml.v3"
)

type diffEntry struct {
	oracle string // the function of the standard library the documentation names
	run    func(d *differ)
}

type differ struct {
	c      *Ctx
	name   string
	oracle string
	fails  int
}

// res is the observable result of a function that returns (value, error).
type res[R any] struct {
	V   R
	Err bool
}

func we1[A, R any](f func(A) (R, error)) func(A) res[R] {
	return func(a A) res[R] {
		v, err := f(a)
		if err != nil {
			var z R
			// the value returned with an error is kept when it is not the zero value: it must be the zero value
			if !reflect.DeepEqual(v, z) {
				return res[R]{v, true}
			}
			return res[R]{z, true}
		}
		return res[R]{v, false}
	}
}

func we2[A, B, R any](f func(A, B) (R, error)) func(A, B) res[R] {
	return func(a A, b B) res[R] {
		v, err := f(a, b)
		if err != nil {
			var z R
			if !reflect.DeepEqual(v, z) {
				return res[R]{v, true}
			}
			return res[R]{z, true}
		}
		return res[R]{v, false}
	}
}

// zeroOnErr: the oracle's value in the error case is not part of the comparison
func ze1[A, R any](f func(A) (R, error)) func(A) res[R] {
	return func(a A) res[R] {
		v, err := f(a)
		if err != nil {
			var z R
			return res[R]{z, true}
		}
		return res[R]{v, false}
	}
}

func ze2[A, B, R any](f func(A, B) (R, error)) func(A, B) res[R] {
	return func(a A, b B) res[R] {
		v, err := f(a, b)
		if err != nil {
			var z R
			return res[R]{z, true}
		}
		return res[R]{v, false}
	}
}

func sameResult(a, b any) bool {
	switch x := a.(type) {
	case string:
		y, ok := b.(string)
		return ok && x == y
	case int:
		y, ok := b.(int)
		return ok && x == y
	case bool:
		y, ok := b.(bool)
		return ok && x == y
	case float64:
		y, ok := b.(float64)
		return ok && (x == y && math.Signbit(x) == math.Signbit(y) || math.IsNaN(x) && math.IsNaN(y))
	}
	if reflect.DeepEqual(a, b) {
		return true
	}
	// NaN inside a composite
	return fmt.Sprintf("%#v", a) == fmt.Sprintf("%#v", b)
}

func showArg(a any) string {
	if s, ok := a.(string); ok {
		if len(s) > 200 {
			return fmt.Sprintf("hex:%s...(%d bytes)", Hx(s[:200]), len(s))
		}
		return "hex:" + Hx(s) + " " + strconv.QuoteToASCII(s)
	}
	s := fmt.Sprintf("%#v", a)
	if len(s) > 300 {
		s = s[:300] + "..."
	}
	return s
}

func (d *differ) report(args []any, got any, gotPanic string, want any, wantPanic string) {
	d.fails++
	if d.fails > 3 {
		return
	}
	det := map[string]any{"diff": true, "dfn": d.name, "oracle": d.oracle}
	var as []string
	for _, a := range args {
		as = append(as, showArg(a))
	}
	det["args"] = as
	if gotPanic != "" {
		det["got"] = "panic: " + gotPanic
	} else {
		det["got"] = showArg(got)
	}
	if wantPanic != "" {
		det["want"] = "panic: " + wantPanic
	} else {
		det["want"] = showArg(want)
	}
	sig := "stdlib-differs:" + d.name
	if gotPanic != "" && wantPanic == "" {
		sig = "panic:" + d.name
	}
	d.c.Fail(sig, det)
}

func try0[R any](f func() R) (r R, p string) {
	defer func() {
		if x := recover(); x != nil {
			p = fmt.Sprint(x)
			if p == "" {
				p = "panic"
			}
		}
	}()
	return f(), ""
}

func (d *differ) cmp(args []any, impl, std func() any) {
	d.c.Count("evaluations")
	d.c.Count("differential")
	g, gp := try0(impl)
	w, wp := try0(std)
	if (gp != "") != (wp != "") || (gp == "" && !sameResult(g, w)) {
		d.report(args, g, gp, w, wp)
		return
	}
	if gp == "" {
		d.c.Count("nontrivial")
	}
}

func d1[A, R any](d *differ, as []A, impl, std func(A) R) {
	for _, a := range as {
		d.cmp([]any{a}, func() any { return impl(a) }, func() any { return std(a) })
	}
}

func d2[A, B, R any](d *differ, as []A, bs []B, impl, std func(A, B) R) {
	for _, a := range as {
		for _, b := range bs {
			d.cmp([]any{a, b}, func() any { return impl(a, b) }, func() any { return std(a, b) })
		}
	}
}

func d3[A, B, C, R any](d *differ, as []A, bs []B, cs []C, impl, std func(A, B, C) R) {
	for _, a := range as {
		for _, b := range bs {
			for _, c := range cs {
				d.cmp([]any{a, b, c}, func() any { return impl(a, b, c) }, func() any { return std(a, b, c) })
			}
		}
	}
}

func d4[A, B, C, D, R any](d *differ, as []A, bs []B, cs []C, ds []D, impl, std func(A, B, C, D) R) {
	for _, a := range as {
		for _, b := range bs {
			for _, c := range cs {
				for _, x := range ds {
					d.cmp([]any{a, b, c, x}, func() any { return impl(a, b, c, x) }, func() any { return std(a, b, c, x) })
				}
			}
		}
	}
}

// ---------------------------------------------------------------- pools

// atoms: ASCII, characters of 2, 3 and 4 bytes, U+FFFD, and every kind of invalid UTF-8
var utf8Atoms = []string{
	"a", "b", "A", " ", "\n", "\x00", ".",
	"\u00e9", "\u00c9", "\u20ac", "\U0001F600", "\ufffd", "\u0130", "\u0131", "\u01c5", "\u00df", "\u017f", "\u212a",
	"\x80", "\xa9", "\xbf", // lone continuation bytes
	"\xc3", "\xe2\x82", "\xf0\x9f\x98", // truncated sequences
	"\xff", "\xfe",
	"\xc0\x80", "\xc1\xbf", "\xe0\x80\x80", // overlong forms
	"\xed\xa0\x80",     // surrogate
	"\xf4\x90\x80\x80", // beyond U+10FFFF
}

// a smaller set for the functions with three or four parameters
var utf8AtomsSmall = []string{"a", "b", " ", "\u00e9", "\u20ac", "\ufffd", "\xa9", "\xc3", "\xff", "\xe2\x82", "\xc0\x80", "\xed\xa0\x80"}

func stringsUpTo(atoms []string, n int) []string {
	out := []string{""}
	level := []string{""}
	for i := 0; i < n; i++ {
		var next []string
		for _, p := range level {
			for _, a := range atoms {
				next = append(next, p+a)
			}
		}
		out = append(out, next...)
		level = next
	}
	return out
}

type pools struct {
	subjects, patterns, smallSubjects, smallPatterns []string
	counts                                           []int
}

var poolCache = map[bool]*pools{}

func getPools(c *Ctx) *pools {
	if p := poolCache[c.Thorough()]; p != nil {
		return p
	}
	p := &pools{}
	n := 2
	if c.Thorough() {
		n = 3
	}
	p.subjects = stringsUpTo(utf8Atoms, n)
	p.subjects = append(p.subjects, strings.Repeat("a", 70)+"\xa9", strings.Repeat("\u00e9", 40), strings.Repeat("\xff", 33)+"a", "a\u00e9\xa9\u00e9a\xc3", "  a b  ", "aXbXc", "abcabc", "\u00e9\xc3\xa9\xa9")
	p.patterns = stringsUpTo(utf8Atoms, 1)
	for _, a := range []string{"a", "\xa9", "\u00e9", "\xc3", "\xff", "\ufffd", " "} {
		for _, b := range []string{"a", "b", "\xa9", "\u00e9", "\xc3", "\ufffd", "\x80"} {
			p.patterns = append(p.patterns, a+b)
		}
	}
	p.patterns = append(p.patterns, "abc", "\xa9\xa9\xa9", " \n\x00", "\u00e9\u20ac\U0001F600")
	p.smallSubjects = stringsUpTo(utf8AtomsSmall, 2)
	p.smallSubjects = append(p.smallSubjects, "aXbXc", "abcabc", "\u00e9\xc3\xa9\xa9", strings.Repeat("a\xa9", 20))
	p.smallPatterns = stringsUpTo(utf8AtomsSmall, 1)
	p.smallPatterns = append(p.smallPatterns, "ab", "a\xa9", "\xc3\xa9", "\xa9\xa9", "X", "bc", "\u00e9\xc3")
	p.counts = []int{-2, -1, 0, 1, 2, 3, 100, math.MaxInt, math.MinInt}
	poolCache[c.Thorough()] = p
	return p
}

var diffBases = []int{-1, 0, 1, 2, 3, 4, 5, 6, 7, 8, 9, 10, 11, 12, 13, 14, 15, 16, 17, 18, 19, 20, 21, 22, 23, 24, 25, 26, 27, 28, 29, 30, 31, 32, 33, 34, 35, 36, 37, 62, 64, 100, math.MinInt, math.MaxInt}

var numSigns = []string{"", "+", "-", "++", "--", "+-", "-+", " ", " -", "- "}
var numBodies = []string{
	"", "0", "1", "7", "9", "a", "z", "Z", "g", "10", "00", "-", "+",
	"_", "1_0", "_1", "1_", "1__0", "0_7",
	"0x", "0x1", "0X1F", "0x_1", "0_x1", "0b", "0b1", "0B1", "0b2", "0o", "0o7", "0O7", "07", "08",
	"1 ", " 1", "1\n", "\t1", "1e3", "1.0", ".", "1x", "x1", "\u0661", "\uff11", "\xff", "1\xff", "\x001",
	"127", "128", "129", "255", "256", "32767", "32768", "65535", "65536",
	"2147483647", "2147483648", "2147483649", "4294967295", "4294967296",
	"9223372036854775807", "9223372036854775808", "9223372036854775809", "18446744073709551615", "18446744073709551616",
	"7fffffffffffffff", "8000000000000000", "8000000000000001", "ffffffffffffffff", "1y2p0ij32e8e7", "1y2p0ij32e8e8", "1Y2P0IJ32E8E7",
	"777777777777777777777", "1000000000000000000000",
}

func numberStrings(thorough bool) []string {
	var out []string
	for _, s := range numSigns {
		for _, b := range numBodies {
			out = append(out, s+b)
		}
	}
	out = append(out, strings.Repeat("9", 100), "-"+strings.Repeat("9", 100), strings.Repeat("0", 5000)+"1", "-"+strings.Repeat("0", 5000)+"1",
		strings.Repeat("1", 63), strings.Repeat("1", 64), strings.Repeat("1", 65), strings.Repeat("z", 13), strings.Repeat("1", 100000))
	return out
}

// boundaryStrings: the boundaries of every bit size written in base b
func boundaryStrings(b int) []string {
	var out []string
	for _, bits := range []uint{8, 16, 32, 64} {
		one := big.NewInt(1)
		half := new(big.Int).Lsh(one, bits-1)
		full := new(big.Int).Lsh(one, bits)
		for _, v := range []*big.Int{
			new(big.Int).Sub(half, one), half, new(big.Int).Add(half, one),
			new(big.Int).Neg(half), new(big.Int).Neg(new(big.Int).Add(half, one)), new(big.Int).Neg(new(big.Int).Sub(half, one)),
			new(big.Int).Sub(full, one), full,
		} {
			t := v.Text(b)
			out = append(out, t, strings.ToUpper(t))
			if v.Sign() >= 0 {
				out = append(out, "+"+t, "0"+t, t+"0")
			} else {
				out = append(out, "-0"+t[1:])
			}
		}
	}
	return out
}

var floatBodies = []string{
	"", ".", "0", "1", "1.", ".5", "1.5", "00.5", "1e", "1e+", "1e-", "e5", "1e5", "1E5", "1e+5", "1e-5", "1e05", "1e1_0", "1ee5", "1e5.5",
	"1e308", "1e309", "1.7976931348623157e308", "1.7976931348623158e308", "1.797693134862315807e308", "1.797693134862315808e308", "1.7976931348623159e308", "1.8e308",
	"4.9e-324", "4.940656458412465441765687928682213723651e-324", "2.4703282292062327208828439643411068618252990130716238221279284125033775363510437593264991818081799618989828234772285886546332835517796989819938739800539093906315035659515570226392290858392449105184435931802849936536152500319370457678249219365623669863658480757001585769269903706311928279558551332927834338409351978015531246597263579574622766465272827220056374006485499977096599470454020828166226237857393450736339007967761930577506740176324673600968951340535537458516661134223766678604162159680461914467291840300530057530849048765391711386591646239524912623653881879636239373280423891018672348497668235089863388587925628302755995657524455507255189313690836254779186948667994968324049705821028513185451396213837722826145437693412532098591327667236328125e-324", "2.5e-324", "2.4e-324", "5e-324", "1e-323", "1e-400", "2.2250738585072014e-308", "2.2250738585072011e-308",
	"9007199254740993", "9007199254740992.5", "9007199254740993.0000000000000000000000000000000000000001", "0.1", "0.30000000000000004", "123456789012345678901234567890",
	"0x", "0x1", "0x1p", "0x1p-2", "0X1P-2", "0X1p-2", "0x1P-2", "0x1.8p1", "0x.8p1", "0x.p1", "0x1p1023", "0x1p1024", "0x1p-1074", "0x1p-1075", "0x1.fffffffffffff8p1023", "0x_1p0", "0x1_0p0", "0b1", "0o7", "0x1e5",
	"1_0", "1_0.5", "1__0", "_1", "1_", "1._5", "1_.5",
	"inf", "Inf", "INF", "iNf", "infinity", "Infinity", "INFINITY", "infinit", "infinityx", "in", "nan", "NaN", "NAN", "nAn", "nanx", "na",
	"1 ", " 1", "1\n", "1f", "1d", "1L", "\u0661", "\uff11", "1\xff", "\x001", "1,5", "1.5.5", "--1",
}

func floatStrings() []string {
	var out []string
	for _, s := range []string{"", "+", "-", "++", "+-", " "} {
		for _, b := range floatBodies {
			out = append(out, s+b)
		}
	}
	out = append(out, "0."+strings.Repeat("0", 400)+"1", strings.Repeat("9", 400), "1"+strings.Repeat("0", 308), "1"+strings.Repeat("0", 309),
		"0."+strings.Repeat("9", 800), "1e"+strings.Repeat("9", 30), "1e-"+strings.Repeat("9", 30), strings.Repeat("1", 100000),
		"179769313486231580793728971405303415079934132710037826936173778980444968292764750946649017977587207096330286416692887910946555547851940402630657488671505820681908902000708383676273854845817711531764475730270069855571366959622842914819860834936475292719074168444365510704342711559699508093042880177904174497791.9999999999999999999999999999999999999999999999999999999999999999999")
	return out
}

var diffFloats = []float64{0, math.Copysign(0, -1), 1, -1, 1.5, 0.1, 0.5, 2.5, 1e21, 1e20, 1e-7, 1e-6, 123456789.125, 5e-324, math.MaxFloat64, math.SmallestNonzeroFloat64, 2.2250738585072014e-308,
	math.NaN(), math.Inf(1), math.Inf(-1), 9007199254740993, 1.0000000000000002, 0.30000000000000004, -123.456e10, 999999.9999999999, 1e23, 8.41e21}

var diffInts = []int{0, 1, -1, 2, 7, 9, 10, 35, 36, 37, 127, 128, -128, -129, 255, 256, 32767, -32768, 65535, 1<<31 - 1, 1 << 31, -(1 << 31), -(1 << 31) - 1, 1<<32 - 1, 1 << 32, math.MaxInt - 1, math.MaxInt, math.MinInt, math.MinInt + 1}

func diffTimes() []time.Time {
	out := []time.Time{
		{}, time.Unix(0, 0).UTC(), time.Unix(0, 0), time.Unix(1616844074, 964553705), time.Unix(1616844074, 964553705).UTC(),
		time.Date(-5, 1, 1, 0, 0, 0, 0, time.UTC), time.Date(0, 1, 1, 0, 0, 0, 0, time.UTC), time.Date(9999, 12, 31, 23, 59, 59, 999999999, time.UTC),
		time.Date(10000, 1, 1, 0, 0, 0, 0, time.UTC), time.Date(12345, 12, 31, 23, 59, 59, 999999999, time.FixedZone("X", -3*3600-1800)),
		time.Date(-999999, 1, 1, 0, 0, 0, 1, time.UTC), time.Date(1000000, 1, 1, 0, 0, 0, 0, time.UTC),
		time.Date(2020, 2, 29, 12, 0, 0, 0, time.UTC), time.Date(2021, 3, 27, 11, 21, 14, 0, time.FixedZone("", 3600)), time.Date(2021, 12, 31, 23, 59, 60, 0, time.UTC),
		time.Date(1999, 12, 31, 23, 59, 59, 500000000, time.FixedZone("UTC", 0)), time.Date(2021, 6, 15, 0, 0, 0, 999999, time.FixedZone("W", -12*3600)),
		time.Date(2021, 6, 15, 0, 0, 0, 499999999, time.FixedZone("E", 14*3600)), time.Date(1969, 12, 31, 23, 59, 59, 999999999, time.FixedZone("odd", 59)),
		time.Unix(math.MaxInt64, 0), time.Unix(math.MinInt64, 0), time.Unix(1<<62, 1<<62), time.Unix(-62135596800, 0), time.Unix(253402300800, 0),
		time.Now(),
	}
	for _, name := range []string{"Europe/Rome", "America/New_York", "Asia/Kathmandu", "Australia/Lord_Howe"} {
		if loc, err := time.LoadLocation(name); err == nil {
			out = append(out, time.Date(2021, 3, 28, 2, 30, 0, 0, loc), time.Date(2021, 10, 31, 2, 30, 0, 0, loc), time.Date(1900, 1, 1, 0, 0, 0, 0, loc), time.Date(2021, 7, 1, 12, 0, 0, 5, loc))
		}
	}
	return out
}

var diffDurations = []time.Duration{0, 1, -1, time.Microsecond, time.Millisecond, time.Second, time.Minute, time.Hour, 24 * time.Hour, 90 * time.Minute, -time.Hour, 1500 * time.Millisecond, 7 * 24 * time.Hour, 3, math.MaxInt64, math.MinInt64, math.MaxInt64 - 1, 500 * time.Millisecond, 499999999, 500000000, 500000001}

var diffLayouts = []string{
	"", time.ANSIC, time.UnixDate, time.RubyDate, time.RFC822, time.RFC822Z, time.RFC850, time.RFC1123, time.RFC1123Z, time.RFC3339, time.RFC3339Nano, time.Kitchen, time.Stamp, time.StampMilli, time.StampMicro, time.StampNano, time.DateTime, time.DateOnly, time.TimeOnly,
	"2006", "06", "1", "01", "Jan", "January", "2", "_2", "02", "__2", "002", "Mon", "Monday", "3", "03", "15", "4", "04", "5", "05", "PM", "pm", "MST", "Z07:00", "Z0700", "Z07", "Z07:00:00", "-07:00:00", "-0700", "-07", "-070000",
	".000", ".999", ",000", ",999999999", ".000000000", "05.000", "05,999", "x", "\xff2006", "2006\xff", "20060102150405", "Jan _2 15:04:05 2006 MST -0700", "日本2006年01月02日", "%Y-%m-%d",
}

var diffTimeValues = []string{
	"", "2021-03-27", "2021-03-27T11:21:14Z", "2021-03-27T11:21:14+01:00", "2021-03-27T11:21:14.964553705+01:00", "2021-03-27 11:21:14", "11:21:14", "3:04PM", "Sat Mar 27 11:21:14 2021", "Sat Mar 27 11:21:14 CET 2021",
	"Sat, 27 Mar 2021 11:21:14 +0100", "27 Mar 21 11:21 CET", "2021", "21", "3", "03", "Mar", "March", "27", " 7", "086", "Sat", "Saturday", "0000-01-01", "9999-12-31T23:59:59.999999999Z", "10000-01-01", "-0001-01-01",
	"2021-02-29", "2021-02-30", "2021-13-01", "2021-00-10", "2021-03-27T24:00:00Z", "2021-03-27T23:59:60Z", "2021-03-27T23:60:00Z", "2021-03-27T11:21:14+24:00", "2021-03-27T11:21:14+01:60", "2021-03-27T11:21:14z", "2021-03-27t11:21:14Z",
	"2021-03-27T11:21:14.Z", "2021-03-27T11:21:14,5Z", "2021-3-27", "20210327112114", "Mar 27 11:21:14", "Mar 27 11:21:14.000", "x", "\xff", "2021-03-27\xff", " 2021-03-27", "2021-03-27 ", "12:00AM", "12:00PM", "13:00PM", "0:00AM",
	"2021-03-27T11:21:14+0100", "2021-03-27T11:21:14 MST", "2021-03-27T11:21:14 GMT+3", "2021-03-27T11:21:14 XYZT",
}

var diffRegexps = []string{"", "a", "b*", "(a)(b)?", "(?P<n>\u00e9+)", ".*", ".", "\\b", "^$", "^", "$", "[^a]", "(?s).", "a|b|", "(?i)\u00e9", "\\xa9", "[\\x80-\\xff]", "\\pL", "\\PL+", "(?U)a+", "(a|ab)(c|bcd)", "\\z", "(|a)*", "x*?", "\xff", "\ufffd"}

var diffRepls = []string{"", "x", "$0", "$1", "${1}x", "$1x", "$n", "${n}", "$", "$$", "\\1", "\xff$0\xff", "$9", "${", "$-1"}

// ---------------------------------------------------------------- the table

var diffTable = map[string]diffEntry{
	// ---- strings
	"HasPrefix": {"strings.HasPrefix", func(d *differ) { p := getPools(d.c); d2(d, p.subjects, p.patterns, builtin.HasPrefix, strings.HasPrefix) }},
	"HasSuffix": {"strings.HasSuffix", func(d *differ) { p := getPools(d.c); d2(d, p.subjects, p.patterns, builtin.HasSuffix, strings.HasSuffix) }},
	"Index":     {"strings.Index", func(d *differ) { p := getPools(d.c); d2(d, p.subjects, p.patterns, builtin.Index, strings.Index) }},
	"IndexAny":  {"strings.IndexAny", func(d *differ) { p := getPools(d.c); d2(d, p.subjects, p.patterns, builtin.IndexAny, strings.IndexAny) }},
	"LastIndex": {"strings.LastIndex", func(d *differ) { p := getPools(d.c); d2(d, p.subjects, p.patterns, builtin.LastIndex, strings.LastIndex) }},
	"Trim":      {"strings.Trim", func(d *differ) { p := getPools(d.c); d2(d, p.subjects, p.patterns, builtin.Trim, strings.Trim) }},
	"TrimLeft":  {"strings.TrimLeft", func(d *differ) { p := getPools(d.c); d2(d, p.subjects, p.patterns, builtin.TrimLeft, strings.TrimLeft) }},
	"TrimRight": {"strings.TrimRight", func(d *differ) { p := getPools(d.c); d2(d, p.subjects, p.patterns, builtin.TrimRight, strings.TrimRight) }},
	"TrimPrefix": {"strings.TrimPrefix", func(d *differ) {
		p := getPools(d.c)
		d2(d, p.subjects, p.patterns, builtin.TrimPrefix, strings.TrimPrefix)
	}},
	"TrimSuffix": {"strings.TrimSuffix", func(d *differ) {
		p := getPools(d.c)
		d2(d, p.subjects, p.patterns, builtin.TrimSuffix, strings.TrimSuffix)
	}},
	"Split":      {"strings.Split", func(d *differ) { p := getPools(d.c); d2(d, p.subjects, p.patterns, builtin.Split, strings.Split) }},
	"SplitAfter": {"strings.SplitAfter", func(d *differ) { p := getPools(d.c); d2(d, p.subjects, p.patterns, builtin.SplitAfter, strings.SplitAfter) }},
	"SplitN": {"strings.SplitN", func(d *differ) {
		p := getPools(d.c)
		d3(d, p.smallSubjects, p.smallPatterns, p.counts, builtin.SplitN, strings.SplitN)
	}},
	"SplitAfterN": {"strings.SplitAfterN", func(d *differ) {
		p := getPools(d.c)
		d3(d, p.smallSubjects, p.smallPatterns, p.counts, builtin.SplitAfterN, strings.SplitAfterN)
	}},
	"Replace": {"strings.Replace", func(d *differ) {
		p := getPools(d.c)
		d4(d, p.smallSubjects, p.smallPatterns, []string{"", "x", "\xff", "\u00e9", "a"}, p.counts, builtin.Replace, strings.Replace)
	}},
	"ReplaceAll": {"strings.ReplaceAll", func(d *differ) {
		p := getPools(d.c)
		d3(d, p.smallSubjects, p.smallPatterns, []string{"", "x", "\xff", "\u00e9", "a"}, builtin.ReplaceAll, strings.ReplaceAll)
	}},
	"Join": {"strings.Join", func(d *differ) {
		p := getPools(d.c)
		lists := [][]string{nil, {}, {""}, {"", ""}, {"a"}, {"a", "b"}, {"\xff", "\u00e9", ""}, {"", "a", ""}, {strings.Repeat("a", 1000), "\xc3"}, make([]string, 100)}
		d2(d, lists, p.patterns, builtin.Join, strings.Join)
	}},
	"ToLower": {"strings.ToLower", func(d *differ) { d1(d, caseStrings(d.c), builtin.ToLower, strings.ToLower) }},
	"ToUpper": {"strings.ToUpper", func(d *differ) { d1(d, caseStrings(d.c), builtin.ToUpper, strings.ToUpper) }},
	"RuneCount": {"unicode/utf8.RuneCountInString", func(d *differ) {
		d1(d, getPools(d.c).subjects, builtin.RuneCount, utf8.RuneCountInString)
	}},
	"Sprint": {"fmt.Sprint", func(d *differ) {
		for _, l := range argLists() {
			l := l
			d.cmp([]any{l}, func() any { return builtin.Sprint(l...) }, func() any { return fmt.Sprint(l...) })
		}
	}},
	"Sprintf": {"fmt.Sprintf", func(d *differ) {
		formats := []string{"", "%", "%%", "%d", "%s", "%v", "%+v", "%#v", "%T", "%q", "%x", "%X", "%5d", "%-5d|", "%05d", "%.2f", "%8.3f", "%e", "%g", "%t", "%c", "%U", "%p", "%b", "%o",
			"%[2]d %[1]d", "%[3]d", "%[0]d", "%[-1]d", "%*d", "%.*f", "%!", "%z", "%d %d", "%s %s %s", "a%", "%\xff", "\xff%d", "%999999d", "%.999999f", "%[1]*d", "%w", "%v %v %v %v"}
		for _, f := range formats {
			for _, l := range argLists() {
				f, l := f, l
				d.cmp([]any{f, l}, func() any { return builtin.Sprintf(f, l...) }, func() any { return fmt.Sprintf(f, l...) })
			}
		}
	}},
	// ---- numbers
	"ParseInt": {"strconv.ParseInt", func(d *differ) {
		// documented: 2 <= base <= 36; base 0 (prefix detection in strconv) is an error
		std := ze2(func(s string, base int) (int, error) {
			if base == 0 {
				return 0, fmt.Errorf("invalid base 0")
			}
			i, err := strconv.ParseInt(s, base, 0)
			return int(i), err
		})
		d2(d, numberStrings(d.c.Thorough()), diffBases, we2(builtin.ParseInt), std)
		for b := 2; b <= 36; b++ {
			d2(d, boundaryStrings(b), []int{b, 10, 16, 36, 2}, we2(builtin.ParseInt), std)
		}
	}},
	"ParseFloat": {"strconv.ParseFloat", func(d *differ) {
		// documented through its tests: only finite decimal numbers (no hexadecimal floats, no Inf, no NaN)
		std := ze1(func(s string) (float64, error) {
			f, err := strconv.ParseFloat(s, 64)
			if err != nil {
				return 0, err
			}
			if math.IsNaN(f) || math.IsInf(f, 0) || strings.ContainsAny(s, "xXpP") {
				return 0, fmt.Errorf("invalid syntax")
			}
			return f, nil
		})
		d1(d, floatStrings(), we1(builtin.ParseFloat), std)
	}},
	"FormatInt": {"strconv.FormatInt", func(d *differ) {
		d2(d, diffInts, diffBases, builtin.FormatInt, func(i, base int) string {
			if base < 2 || base > 36 {
				panic("documented: panics if base is not in the range")
			}
			return strconv.FormatInt(int64(i), base)
		})
	}},
	"FormatFloat": {"strconv.FormatFloat", func(d *differ) {
		formats := []string{"e", "f", "g", "", "E", "G", "b", "x", "ee", "\xff", "F"}
		precs := []int{-2, -1, 0, 1, 2, 15, 16, 17, 18, 100, 1000, 1001, math.MaxInt, math.MinInt}
		d3(d, diffFloats, formats, precs, builtin.FormatFloat, func(f float64, format string, prec int) string {
			if (format != "e" && format != "f" && format != "g") || prec < -1 || prec > 1000 {
				panic("documented: panics if the format or the precision is not valid")
			}
			return strconv.FormatFloat(f, format[0], prec, 64)
		})
	}},
	"Pow": {"math.Pow", func(d *differ) { d2(d, diffFloats, diffFloats, builtin.Pow, math.Pow) }},
	// ---- encodings and digests
	"Base64": {"(*encoding/base64.Encoding).EncodeToString", func(d *differ) {
		d1(d, getPools(d.c).subjects, builtin.Base64, func(s string) string { return base64.StdEncoding.EncodeToString([]byte(s)) })
	}},
	"Hex": {"encoding/hex.EncodeToString", func(d *differ) {
		d1(d, getPools(d.c).subjects, builtin.Hex, func(s string) string { return hex.EncodeToString([]byte(s)) })
	}},
	"Md5": {"crypto/md5.New", func(d *differ) {
		d1(d, digestStrings(d.c), builtin.Md5, func(s string) string { h := md5.Sum([]byte(s)); return hex.EncodeToString(h[:]) })
	}},
	"Sha1": {"crypto/sha1.New", func(d *differ) {
		d1(d, digestStrings(d.c), builtin.Sha1, func(s string) string { h := sha1.Sum([]byte(s)); return hex.EncodeToString(h[:]) })
	}},
	"Sha256": {"crypto/sha256.New", func(d *differ) {
		d1(d, digestStrings(d.c), builtin.Sha256, func(s string) string { h := sha256.Sum256([]byte(s)); return hex.EncodeToString(h[:]) })
	}},
	"HmacSHA1": {"crypto/hmac.New", func(d *differ) {
		d2(d, digestStrings(d.c), digestStrings(d.c), builtin.HmacSHA1, func(m, k string) string {
			h := hmac.New(sha1.New, []byte(k))
			h.Write([]byte(m))
			return base64.StdEncoding.EncodeToString(h.Sum(nil))
		})
	}},
	"HmacSHA256": {"crypto/hmac.New", func(d *differ) {
		d2(d, digestStrings(d.c), digestStrings(d.c), builtin.HmacSHA256, func(m, k string) string {
			h := hmac.New(sha256.New, []byte(k))
			h.Write([]byte(m))
			return base64.StdEncoding.EncodeToString(h.Sum(nil))
		})
	}},
	// ---- JSON and YAML
	"MarshalJSON": {"encoding/json.Marshal", func(d *differ) {
		d1(d, marshalValues(), we1(builtin.MarshalJSON), ze1(func(v any) (native.JSON, error) { b, err := json.Marshal(v); return native.JSON(b), err }))
	}},
	"MarshalJSONIndent": {"encoding/json.MarshalIndent", func(d *differ) {
		ws := []string{"", " ", "\t", "  ", "\n", "\r", " \t\n\r", "x", "\xff", "\u00a0", " x", "\v", "\f", "\x00"}
		d3(d, marshalValues(), ws, ws, func(v any, p, i string) res[native.JSON] { r, err := builtin.MarshalJSONIndent(v, p, i); return res[native.JSON]{r, err != nil} },
			func(v any, p, i string) res[native.JSON] {
				// documented: prefix and indent can only contain ' ', '\t', '\n' and '\r'
				if strings.Trim(p, " \t\n\r") != "" || strings.Trim(i, " \t\n\r") != "" {
					return res[native.JSON]{"", true}
				}
				b, err := json.MarshalIndent(v, p, i)
				if err != nil {
					return res[native.JSON]{"", true}
				}
				return res[native.JSON]{native.JSON(b), false}
			})
	}},
	"IndentJSON": {"encoding/json.Indent", func(d *differ) {
		datas := []string{``, ` `, "\n\t", `{}`, ` {"a":[1,2,{"b":null}]} `, `[`, `x`, `1`, ` 1`, "1 ", "\"\u00ff\"", "\xff", `{"a":1}x`, "\t[1,\n2]\r\n", `{"b":1,"a":2}`, "[\"\\ud800\"]", `1e999`, `{"a":1,"a":2}`, "\ufeff{}", "{}\x00", "\v{}"}
		ws := []string{"", " ", "\t", "  ", "\n", "\r", "x", "\xff", "\u00a0", "\v"}
		d3(d, datas, ws, ws, func(data, p, i string) native.JSON { return builtin.IndentJSON(native.JSON(data), p, i) },
			func(data, p, i string) native.JSON {
				// documented: panics if data is not valid JSON or if prefix or indent contain other characters than whitespace
				if strings.Trim(p, " \t\n\r") != "" || strings.Trim(i, " \t\n\r") != "" {
					panic("documented panic")
				}
				var buf bytes.Buffer
				if err := json.Indent(&buf, []byte(strings.Trim(data, " \t\n\r")), p, i); err != nil {
					panic("documented panic")
				}
				return native.JSON(buf.String())
			})
	}},
	"UnmarshalJSON": {"encoding/json.Unmarshal", func(d *differ) {
		datas := []string{``, `{}`, `[]`, `null`, `1`, `"s"`, `true`, `{"a":1}`, `{"A":2,"b":"x","C":[1,2]}`, `[1,2,3]`, `[1,"x"]`, `{"a":{"b":[1,"x",null,true]}}`, `1.5`, `1e999`, `{`, `[1,2`, `{"a":1}x`, " {} ", "\ufeff{}", "\xff", `"\ud800"`, `{"a":1,"a":2}`, `-0`, `9223372036854775808`, `[[[[[[[[[[]]]]]]]]]]`, strings.Repeat("[", 10001) + strings.Repeat("]", 10001)}
		for _, data := range datas {
			for _, mk := range destinations() {
				data, mk := data, mk
				d.cmp([]any{data, fmt.Sprintf("%T", mk())}, func() any { return unmarshalObs(mk(), func(v any) error { return builtin.UnmarshalJSON(data, v) }) },
					func() any {
						return unmarshalObs(mk(), func(v any) error { return unmarshalOracle(v, func(p any) error { return json.Unmarshal([]byte(data), p) }) })
					})
			}
		}
	}},
	"MarshalYAML": {"gopkg.in/yaml.v3.Marshal", func(d *differ) {
		d1(d, marshalValues(), we1(builtin.MarshalYAML), func(v any) (r res[string]) {
			// documented by reference to yaml.Marshal; its panics are errors
			defer func() {
				if recover() != nil {
					r = res[string]{"", true}
				}
			}()
			b, err := yaml.Marshal(v)
			if err != nil {
				return res[string]{"", true}
			}
			return res[string]{string(b), false}
		})
	}},
	"UnmarshalYAML": {"gopkg.in/yaml.v3.Unmarshal", func(d *differ) {
		datas := []string{"", "a: 1", "- a\n- b", "a: [1, 2", "a: &x 1\nb: *x", "? !!binary", "a: !!int x", "&a [*a]", "a:\n\tb", "---\n...", "%YAML 9.9", "1", "s", "null", "~", "[1, 2, 3]", "{a: 1}", "A: 2\nb: x\nC: [1, 2]", "a: 1\na: 2", "\xff", "a: !!float .inf", "- &a [1]\n- *a", "a: *b", strings.Repeat("[", 10001)}
		for _, data := range datas {
			for _, mk := range destinations() {
				data, mk := data, mk
				d.cmp([]any{data, fmt.Sprintf("%T", mk())}, func() any { return unmarshalObs(mk(), func(v any) error { return builtin.UnmarshalYAML(data, v) }) },
					func() any {
						return unmarshalObs(mk(), func(v any) error {
							return unmarshalOracle(v, func(p any) (err error) {
								defer func() {
									if r := recover(); r != nil {
										err = fmt.Errorf("%v", r)
									}
								}()
								return yaml.Unmarshal([]byte(data), p)
							})
						})
					})
			}
		}
	}},
	// ---- time
	"Now": {"time.Now", func(d *differ) {
		before := time.Now()
		t := builtin.Now()
		after := time.Now()
		d.cmp([]any{}, func() any {
			return !builtin.NewTime(before).After(t) && !t.After(builtin.NewTime(after)) && t.Format("MST -0700") == before.Format("MST -0700")
		}, func() any { return true })
	}},
	"UnixTime": {"time.Unix", func(d *differ) {
		vals := []int64{0, 1, -1, 999999999, 1000000000, -1000000000, 1616844074, 1 << 31, -(1 << 31), 1 << 62, math.MaxInt64, math.MinInt64, math.MaxInt64 - 1, -62135596800, 253402300800}
		d2(d, vals, vals, builtin.UnixTime, func(s, n int64) builtin.Time { return builtin.NewTime(time.Unix(s, n)) })
	}},
	"ParseDuration": {"time.ParseDuration", func(d *differ) {
		vals := []string{"", "0", "1", "-", "+", "-0", "+0", "1s", "1.5h", "-1.5h", "2h45m", "300ms", "1us", "1\u00b5s", "1\u03bcs", "1ns", "1d", "1w", "h", ".s", "1.s", ".5s", "1..5s", "1h1", "1 h", " 1h", "1h ", "1H", "1e3s", "0x1s", "1_0s",
			"9223372036854775807ns", "9223372036854775808ns", "-9223372036854775808ns", "-9223372036854775809ns", "2562047h47m16.854775807s", "2562047h47m16.854775808s", "2562048h", "9999999999h", "0.000000000000000000001h",
			"1h\xff", "\xff", "1m1h1s", "--1s", "+-1s", "1.0000000000000000000000000000000001s", "0.9223372036854775807h", "1\uff53", strings.Repeat("1", 1000) + "s", strings.Repeat("1s", 1000)}
		d1(d, vals, we1(builtin.ParseDuration), ze1(time.ParseDuration))
	}},
	"ParseTime": {"time.Parse", func(d *differ) {
		layouts := diffLayouts[1:] // the empty layout is a documented special case, tested by the generic part
		d2(d, layouts, diffTimeValues, we2(builtin.ParseTime), ze2(func(l, v string) (builtin.Time, error) { t, err := time.Parse(l, v); return builtin.NewTime(t), err }))
		// a value formatted with a layout parses back like time.Parse says
		for _, l := range layouts {
			for _, t := range diffTimes() {
				if y := t.Year(); y < 0 || y > 9999 {
					continue
				}
				v := t.Format(l)
				d2(d, []string{l}, []string{v, v + " ", " " + v, v + "x"}, we2(builtin.ParseTime), ze2(func(l, v string) (builtin.Time, error) { t, err := time.Parse(l, v); return builtin.NewTime(t), err }))
			}
		}
	}},
	"Date": {"time.Date", func(d *differ) {
		locs := []string{"", "UTC", "Local", "Europe/Rome", "America/New_York", "Nowhere/City", "../../etc/passwd", "\xff", "utc", "europe/rome", "Etc/GMT+12", "/", ".", " UTC"}
		ys := []int{2021, 0, -1, 1, 1970, 9999, 10000, -292277022399, 292277026596, math.MaxInt, math.MinInt}
		ms := []int{1, 0, -1, 12, 13, 3, 10, 25, math.MaxInt, math.MinInt}
		ds := []int{1, 0, -1, 28, 29, 31, 32, 366, math.MaxInt, math.MinInt}
		hs := []int{0, 2, 23, 24, -1, 25, math.MaxInt}
		ns := []int{0, 999999999, 1000000000, -1, math.MaxInt, math.MinInt}
		r := d.c.Rng
		n := 4000
		if d.c.Thorough() {
			n = 100000
		}
		pk := func(l []int) int { return l[r.Intn(len(l))] }
		for i := 0; i < n; i++ {
			y, mo, da, h, mi, s, nn, loc := pk(ys), pk(ms), pk(ds), pk(hs), pk(hs), pk(hs), pk(ns), locs[r.Intn(len(locs))]
			if i%2 == 0 {
				// one extreme component at a time
				y, mo, da, h, mi, s, nn = 2021, 3, 28, 2, 30, 0, 0
				switch r.Intn(7) {
				case 0:
					y = pk(ys)
				case 1:
					mo = pk(ms)
				case 2:
					da = pk(ds)
				case 3:
					h = pk(hs)
				case 4:
					mi = pk(hs)
				case 5:
					s = pk(hs)
				case 6:
					nn = pk(ns)
				}
			}
			d.cmp([]any{y, mo, da, h, mi, s, nn, loc}, func() any { t, err := builtin.Date(y, mo, da, h, mi, s, nn, loc); return res[builtin.Time]{t, err != nil} },
				func() any {
					l, err := time.LoadLocation(loc)
					if err != nil {
						return res[builtin.Time]{builtin.Time{}, true}
					}
					return res[builtin.Time]{builtin.NewTime(time.Date(y, time.Month(mo), da, h, mi, s, nn, l)), false}
				})
		}
	}},
	"Time.Add": {"(time.Time).Add", func(d *differ) {
		d2(d, diffTimes(), diffDurations, func(t time.Time, x time.Duration) builtin.Time { return builtin.NewTime(t).Add(x) }, func(t time.Time, x time.Duration) builtin.Time { return builtin.NewTime(t.Add(x)) })
	}},
	"Time.AddDate": {"(time.Time).AddDate", func(d *differ) {
		vs := []int{0, 1, -1, 12, 13, 31, 365, 400, -400, 1 << 31, math.MaxInt, math.MinInt}
		d4(d, diffTimes(), vs, vs, vs, func(t time.Time, y, m, dd int) builtin.Time { return builtin.NewTime(t).AddDate(y, m, dd) }, func(t time.Time, y, m, dd int) builtin.Time { return builtin.NewTime(t.AddDate(y, m, dd)) })
	}},
	"Time.After":  {"(time.Time).After", func(d *differ) { d2(d, diffTimes(), diffTimes(), func(t, u time.Time) bool { return builtin.NewTime(t).After(builtin.NewTime(u)) }, time.Time.After) }},
	"Time.Before": {"(time.Time).Before", func(d *differ) { d2(d, diffTimes(), diffTimes(), func(t, u time.Time) bool { return builtin.NewTime(t).Before(builtin.NewTime(u)) }, time.Time.Before) }},
	"Time.Equal":  {"(time.Time).Equal", func(d *differ) { d2(d, diffTimes(), diffTimes(), func(t, u time.Time) bool { return builtin.NewTime(t).Equal(builtin.NewTime(u)) }, time.Time.Equal) }},
	"Time.Sub":    {"(time.Time).Sub", func(d *differ) { d2(d, diffTimes(), diffTimes(), func(t, u time.Time) time.Duration { return builtin.NewTime(t).Sub(builtin.NewTime(u)) }, time.Time.Sub) }},
	"Time.Clock": {"(time.Time).Clock", func(d *differ) {
		d1(d, diffTimes(), func(t time.Time) [3]int { h, m, s := builtin.NewTime(t).Clock(); return [3]int{h, m, s} }, func(t time.Time) [3]int { h, m, s := t.Clock(); return [3]int{h, m, s} })
	}},
	"Time.Date": {"(time.Time).Date", func(d *differ) {
		d1(d, diffTimes(), func(t time.Time) [3]int { y, m, dd := builtin.NewTime(t).Date(); return [3]int{y, m, dd} }, func(t time.Time) [3]int { y, m, dd := t.Date(); return [3]int{y, int(m), dd} })
	}},
	"Time.Day":        {"(time.Time).Day", func(d *differ) { d1(d, diffTimes(), func(t time.Time) int { return builtin.NewTime(t).Day() }, time.Time.Day) }},
	"Time.Hour":       {"(time.Time).Hour", func(d *differ) { d1(d, diffTimes(), func(t time.Time) int { return builtin.NewTime(t).Hour() }, time.Time.Hour) }},
	"Time.Minute":     {"(time.Time).Minute", func(d *differ) { d1(d, diffTimes(), func(t time.Time) int { return builtin.NewTime(t).Minute() }, time.Time.Minute) }},
	"Time.Second":     {"(time.Time).Second", func(d *differ) { d1(d, diffTimes(), func(t time.Time) int { return builtin.NewTime(t).Second() }, time.Time.Second) }},
	"Time.Nanosecond": {"(time.Time).Nanosecond", func(d *differ) { d1(d, diffTimes(), func(t time.Time) int { return builtin.NewTime(t).Nanosecond() }, time.Time.Nanosecond) }},
	"Time.Year":       {"(time.Time).Year", func(d *differ) { d1(d, diffTimes(), func(t time.Time) int { return builtin.NewTime(t).Year() }, time.Time.Year) }},
	"Time.YearDay":    {"(time.Time).YearDay", func(d *differ) { d1(d, diffTimes(), func(t time.Time) int { return builtin.NewTime(t).YearDay() }, time.Time.YearDay) }},
	"Time.Month":      {"(time.Time).Month", func(d *differ) { d1(d, diffTimes(), func(t time.Time) int { return builtin.NewTime(t).Month() }, func(t time.Time) int { return int(t.Month()) }) }},
	"Time.Weekday":    {"(time.Time).Weekday", func(d *differ) { d1(d, diffTimes(), func(t time.Time) int { return builtin.NewTime(t).Weekday() }, func(t time.Time) int { return int(t.Weekday()) }) }},
	"Time.IsZero":     {"(time.Time).IsZero", func(d *differ) { d1(d, diffTimes(), func(t time.Time) bool { return builtin.NewTime(t).IsZero() }, time.Time.IsZero) }},
	"Time.Unix":       {"(time.Time).Unix", func(d *differ) { d1(d, diffTimes(), func(t time.Time) int64 { return builtin.NewTime(t).Unix() }, time.Time.Unix) }},
	"Time.UnixNano":   {"(time.Time).UnixNano", func(d *differ) { d1(d, diffTimes(), func(t time.Time) int64 { return builtin.NewTime(t).UnixNano() }, time.Time.UnixNano) }},
	"Time.String":     {"(time.Time).String", func(d *differ) { d1(d, diffTimes(), func(t time.Time) string { return builtin.NewTime(t).String() }, time.Time.String) }},
	"Time.UTC":        {"(time.Time).UTC", func(d *differ) { d1(d, diffTimes(), func(t time.Time) builtin.Time { return builtin.NewTime(t).UTC() }, func(t time.Time) builtin.Time { return builtin.NewTime(t.UTC()) }) }},
	"Time.Format": {"(time.Time).Format", func(d *differ) {
		d2(d, diffTimes(), diffLayouts, func(t time.Time, l string) string { return builtin.NewTime(t).Format(l) }, time.Time.Format)
	}},
	"Time.JSON": {"(time.Time).Format", func(d *differ) {
		// documented: "a time in a format suitable for use in JSON": a JSON string in the RFC 3339 layout
		d1(d, diffTimes(), func(t time.Time) native.JSON { return builtin.NewTime(t).JSON() }, func(t time.Time) native.JSON { return native.JSON(`"` + t.Format(time.RFC3339) + `"`) })
	}},
	"Time.Round": {"(time.Time).Round", func(d *differ) {
		d2(d, diffTimes(), diffDurations, func(t time.Time, x time.Duration) builtin.Time { return builtin.NewTime(t).Round(x) }, func(t time.Time, x time.Duration) builtin.Time { return builtin.NewTime(t.Round(x)) })
	}},
	"Time.Truncate": {"(time.Time).Truncate", func(d *differ) {
		d2(d, diffTimes(), diffDurations, func(t time.Time, x time.Duration) builtin.Time { return builtin.NewTime(t).Truncate(x) }, func(t time.Time, x time.Duration) builtin.Time { return builtin.NewTime(t.Truncate(x)) })
	}},
	// ---- regular expressions
	"RegExp": {"regexp.Compile", func(d *differ) {
		exprs := append(append([]string{}, diffRegexps...), "(", ")", "[a-", "a{1001}", "a{2,1}", "\\", "(?P<n>x)(?P<n>y)", "(?z)", "*", "a**", "\\8", "[[:foo:]]", "\\p{Foo}", "(?i)(?-i)", strings.Repeat("(", 1001)+strings.Repeat(")", 1001), strings.Repeat("a", 100000), "(a{1000}){1000}")
		d1(d, exprs, func(e string) string { return fmt.Sprint(builtin.RegExp(e).Match("a")) }, func(e string) string {
			r, err := regexp.Compile(e)
			if err != nil {
				panic("documented: panics if the expression cannot be parsed")
			}
			return fmt.Sprint(r.MatchString("a"))
		})
	}},
	"Regexp.Match": {"(*regexp.Regexp).MatchString", func(d *differ) {
		d2(d, diffRegexps, getPools(d.c).smallSubjects, func(e, s string) bool { return builtin.RegExp(e).Match(s) }, func(e, s string) bool { return regexp.MustCompile(e).MatchString(s) })
	}},
	"Regexp.Find": {"(*regexp.Regexp).FindString", func(d *differ) {
		d2(d, diffRegexps, getPools(d.c).smallSubjects, func(e, s string) string { return builtin.RegExp(e).Find(s) }, func(e, s string) string { return regexp.MustCompile(e).FindString(s) })
	}},
	"Regexp.FindAll": {"(*regexp.Regexp).FindAllString", func(d *differ) {
		d3(d, diffRegexps, getPools(d.c).smallSubjects, []int{-1, 0, 1, 2, math.MaxInt, math.MinInt}, func(e, s string, n int) []string { return builtin.RegExp(e).FindAll(s, n) }, func(e, s string, n int) []string { return regexp.MustCompile(e).FindAllString(s, n) })
	}},
	"Regexp.FindAllSubmatch": {"(*regexp.Regexp).FindAllStringSubmatch", func(d *differ) {
		d3(d, diffRegexps, getPools(d.c).smallSubjects, []int{-1, 0, 1, 2, math.MaxInt}, func(e, s string, n int) [][]string { return builtin.RegExp(e).FindAllSubmatch(s, n) }, func(e, s string, n int) [][]string { return regexp.MustCompile(e).FindAllStringSubmatch(s, n) })
	}},
	"Regexp.FindSubmatch": {"(*regexp.Regexp).FindStringSubmatch", func(d *differ) {
		d2(d, diffRegexps, getPools(d.c).smallSubjects, func(e, s string) []string { return builtin.RegExp(e).FindSubmatch(s) }, func(e, s string) []string { return regexp.MustCompile(e).FindStringSubmatch(s) })
	}},
	"Regexp.ReplaceAll": {"(*regexp.Regexp).ReplaceAllString", func(d *differ) {
		subj := []string{"", "a", "ab", "aab", "\u00e9\u00e9a", "\xa9a\xff", "abcabc", "a b", "\ufffd", "\xc3"}
		d3(d, diffRegexps, subj, diffRepls, func(e, s, r string) string { return builtin.RegExp(e).ReplaceAll(s, r) }, func(e, s, r string) string { return regexp.MustCompile(e).ReplaceAllString(s, r) })
	}},
	"Regexp.ReplaceAllFunc": {"(*regexp.Regexp).ReplaceAllStringFunc", func(d *differ) {
		fs := []func(string) string{strings.ToUpper, func(s string) string { return "\xff$1" }, func(s string) string { return "" }, func(s string) string { return s + s }}
		for fi, f := range fs {
			f := f
			d2(d, diffRegexps, getPools(d.c).smallSubjects, func(e, s string) string { return builtin.RegExp(e).ReplaceAllFunc(s, f) }, func(e, s string) string { return regexp.MustCompile(e).ReplaceAllStringFunc(s, f) })
			_ = fi
		}
	}},
	"Regexp.Split": {"(*regexp.Regexp).Split", func(d *differ) {
		d3(d, diffRegexps, getPools(d.c).smallSubjects, []int{-1, 0, 1, 2, 3, math.MaxInt, math.MinInt}, func(e, s string, n int) []string { return builtin.RegExp(e).Split(s, n) }, func(e, s string, n int) []string { return regexp.MustCompile(e).Split(s, n) })
	}},
}

// ---------------------------------------------------------------- helpers of the table

func caseStrings(c *Ctx) []string {
	out := append([]string{}, getPools(c).subjects...)
	// every code point of the planes where case mappings live, alone and after a letter
	max := rune(0x3000)
	if c.Thorough() {
		max = 0x20000
	}
	for r := rune(0); r < max; r++ {
		out = append(out, string(r))
	}
	for _, r := range []rune{0x130, 0x131, 0x1c4, 0x1c5, 0x1c6, 0x1e9e, 0x2126, 0x212a, 0x212b, 0xfb00, 0xff21, 0x10400, 0x10428, 0x1e900, 0x3a3, 0x3c2, 0x3c3, 0x345, 0x10ffff, 0xd7ff, 0xe000} {
		out = append(out, string(r), "a"+string(r), string(r)+"a", "\xff"+string(r)+"\xc3")
	}
	return out
}

func digestStrings(c *Ctx) []string {
	out := []string{"", "a", "abc", "\x00", "\xff", "\u00e9", strings.Repeat("a", 55), strings.Repeat("a", 56), strings.Repeat("a", 63), strings.Repeat("a", 64), strings.Repeat("a", 65), strings.Repeat("a", 119), strings.Repeat("a", 120), strings.Repeat("\xff", 128), strings.Repeat("ab", 5000)}
	for i := 0; i < 8; i++ {
		out = append(out, RandString(c.Rng, 200))
	}
	return out
}

type tM struct {
	A int
	B string `json:"b,omitempty" yaml:"b,omitempty"`
	C []int
	d int
	E *tM            `json:"e" yaml:"e"`
	F map[string]any `json:"f" yaml:"f"`
}

type tText struct{ S string }

func (t tText) MarshalText() ([]byte, error) {
	if t.S == "err" {
		return nil, fmt.Errorf("cannot marshal")
	}
	return []byte(t.S), nil
}

func marshalValues() []any {
	i := 5
	return []any{
		nil, 1, -1, "s", "", "\xff", "\u2028<>&", 1.5, math.NaN(), math.Inf(1), math.Copysign(0, -1), 1e21, 1e-7, float32(0.1), true, []int{3, 1, 2}, []int{}, []int(nil), []string{"b", "a", "\xff"}, []byte{3, 1}, []byte(nil),
		map[string]any{"a": 1, "b": []any{1, "x"}}, map[string]any(nil), map[int]string{1: "a", -2: "b"}, map[any]any{1: 2, "a": "b"}, map[bool]int{true: 1}, map[float64]int{1.5: 1}, map[string]any{"\xff": 1, "": 2},
		tM{A: 1, B: "x", C: []int{1}}, &tM{}, (*tM)(nil), &tM{E: &tM{F: map[string]any{"k": nil}}}, &i, new(string), new(any),
		make(chan int), func() {}, complex(1, 2), [2]int{2, 1}, uintptr(3), json.RawMessage("{"), json.RawMessage(`{"a": 1}`), json.Number("1e5"), json.Number("x"), time.Unix(0, 0).UTC(), time.Duration(5), fmt.Errorf("e"), struct{}{},
		builtin.NewTime(time.Unix(0, 0).UTC()), native.JSON("{}"), native.HTML("<b>"), tText{"t"}, tText{"err"}, map[tText]int{{"k"}: 1}, []any{1, "a", nil, 1.5, []int{1}, map[string]any{}}, [][]int{{1}, nil, {}},
		uint64(math.MaxUint64), int64(math.MinInt64), int8(-128), "a\nb: c", "- x", "yes", "null", "~", "1e3", "0x10", " lead", "trail ", "multi\nline\n", "tab\t", "#c", "'q'", "\"q\"", "\u00e9\u20ac", "\x00",
	}
}

func argLists() [][]any {
	i := 7
	return [][]any{
		nil, {}, {nil}, {1}, {"a"}, {"a", "b"}, {1, 2}, {1, "a", 2}, {"a", 1, 2, "b"}, {1.5, true}, {nil, nil}, {[]int{1, 2}}, {map[string]int{"a": 1}}, {&i}, {struct{ A, b int }{1, 2}}, {fmt.Errorf("e")}, {time.Duration(5)},
		{[]byte("x")}, {'x'}, {"\xff"}, {math.NaN(), math.Inf(-1)}, {complex(1, 2)}, {3, 2, 1}, {-5, 10}, {"s", "t", "u", "v", "w"}, {(*int)(nil)}, {[]any{1, "a"}}, {builtin.NewTime(time.Unix(0, 0).UTC())}, {native.HTML("<b>")},
	}
}

// destinations of UnmarshalJSON / UnmarshalYAML: each call makes a fresh value with a known content
func destinations() []func() any {
	return []func() any{
		func() any { return nil },
		func() any { var v any = "old"; return &v },
		func() any { v := map[string]any{"old": 1}; return &v },
		func() any { v := []int{9}; return &v },
		func() any { v := tM{A: 9, B: "old"}; return &v },
		func() any { v := 9; return &v },
		func() any { v := "old"; return &v },
		func() any { v := 9.5; return &v },
		func() any { v := true; return &v },
		func() any { v := []any{"old"}; return &v },
		func() any { return (*int)(nil) },
		func() any { return 9 },
		func() any { return map[string]any{"old": 1} },
		func() any { return "s" },
		func() any { v := &tM{A: 9}; return &v },
		func() any { v := map[string]int{"old": 1}; return &v },
		func() any { v := [2]int{8, 9}; return &v },
		func() any { v := uint8(9); return &v },
	}
}

type unmarshalRes struct {
	Err   bool
	Value string
}

// unmarshalObs: the error-ness and the destination afterwards
func unmarshalObs(v any, f func(v any) error) unmarshalRes {
	err := f(v)
	return unmarshalRes{err != nil, fmt.Sprintf("%#v", derefForShow(v))}
}

func derefForShow(v any) any {
	rv := reflect.ValueOf(v)
	if rv.IsValid() && rv.Kind() == reflect.Pointer && !rv.IsNil() {
		e := rv.Elem()
		if e.Kind() == reflect.Pointer && !e.IsNil() {
			return e.Elem().Interface()
		}
		return e.Interface()
	}
	return v
}

// unmarshalOracle is the documentation of UnmarshalJSON / UnmarshalYAML over
// the library function: nil, a non-pointer and a nil pointer are errors; the
// data is decoded into a NEW value, which replaces the destination only if no
// error occurs.
func unmarshalOracle(v any, dec func(p any) error) error {
	if v == nil {
		return fmt.Errorf("nil")
	}
	rv := reflect.ValueOf(v)
	if rv.Kind() != reflect.Pointer || rv.IsNil() {
		return fmt.Errorf("not a pointer")
	}
	nv := reflect.New(rv.Type().Elem())
	if err := dec(nv.Interface()); err != nil {
		return err
	}
	rv.Elem().Set(nv.Elem())
	return nil
}

// ---------------------------------------------------------------- the sweep

type wrapperClass struct {
	Hash   string `json:"hash"`
	Class  string `json:"class"`
	Oracle string `json:"oracle"`
}

func readWrapperClasses() (map[string]wrapperClass, error) {
	dir := os.Getenv("VERIF_DIR")
	if dir == "" {
		dir = "."
	}
	by, err := os.ReadFile(dir + "/checks/C25_wrappers.json")
	if err != nil {
		return nil, err
	}
	var doc struct {
		Functions map[string]wrapperClass `json:"functions"`
	}
	if err := json.Unmarshal(by, &doc); err != nil {
		return nil, err
	}
	return doc.Functions, nil
}

func diffSweep(c *Ctx) {
	only := ""
	if in := c.ReplayInput(); in != nil {
		only, _ = in["dfn"].(string)
	}
	if only == "" {
		// the table against the classification that gofacts ties to the code
		classes, err := readWrapperClasses()
		if err != nil {
			c.Fail("harness:wrapper-classification", map[string]any{"diff": true, "error": err.Error()})
		}
		var names []string
		for n := range classes {
			names = append(names, n)
		}
		sort.Strings(names)
		for _, n := range names {
			cl := classes[n]
			if cl.Class != "direct-wrapper" && cl.Class != "guarded-wrapper" {
				continue
			}
			e, ok := diffTable[n]
			switch {
			case !ok:
				c.Fail("wrapper-without-differential:"+n, map[string]any{"diff": true, "dfn": n, "why": "classified as " + cl.Class + " of " + cl.Oracle + " but the sweep has no differential entry"})
			case e.oracle != cl.Oracle:
				c.Fail("differential-oracle-mismatch:"+n, map[string]any{"diff": true, "dfn": n, "why": "the classification names " + cl.Oracle + ", the differential entry compares with " + e.oracle})
			}
		}
		exported, err := exportedFuncs()
		if err == nil {
			for _, n := range exported {
				if _, ok := classes[n]; !ok {
					c.Fail("unclassified-builtin:"+n, map[string]any{"diff": true, "dfn": n, "why": "exported function of package builtin missing from checks/C25_wrappers.json"})
				}
			}
		}
	}
	var names []string
	for n := range diffTable {
		names = append(names, n)
	}
	sort.Strings(names)
	for _, n := range names {
		if only != "" && n != only {
			continue
		}
		d := &differ{c: c, name: n, oracle: diffTable[n].oracle}
		start := time.Now()
		diffTable[n].run(d)
		if os.Getenv("C25_DEBUG") != "" {
			fmt.Fprintf(os.Stderr, "diff %-24s %8d ms fails=%d\n", n, time.Since(start).Milliseconds(), d.fails)
		}
		if d.fails > 0 {
			c.Add("differential-failures:"+n, d.fails)
		}
	}
}
