package main

// C30 sweep driver. The parent keeps nothing but hashes: the source sets are
// processed in chunks by child processes that run under an address-space
// limit and a Go memory limit. Every child builds each source of its chunk 8
// times (comparing the results inside that process), runs it once and prints
// one line per source; 3 fresh children are started for every chunk and their
// lines are compared with each other.

import (
	"encoding/json"
	"fmt"
	"os"
	"runtime"
	"runtime/debug"
	"strconv"
	"strings"
	"time"
	. "verif/harness/hlib"
)

const c30Chunk = 60

type c30Line struct {
	build, run string
	nondet    string // JSON detail of a difference found inside the child, or ""
	built     bool
}

func init() {
	// child: sources [C30_START, C30_END): BEGIN i / RES i hash run built / NONDET i json
	Register("C30-child", func(c *Ctx) {
		debug.SetMemoryLimit(400 << 20)
		start, end := 0, 1<<30
		if v := os.Getenv("C30_START"); v != "" {
			start, _ = strconv.Atoi(v)
		}
		if v := os.Getenv("C30_END"); v != "" {
			end, _ = strconv.Atoi(v)
		}
		for i, s := range c30Sources(c) {
			if i < start || i >= end {
				continue
			}
			fmt.Fprintf(os.Stdout, "BEGIN\t%d\n", i)
			var first buildResult
			reported := false
			for k := 0; k < 8; k++ {
				r := buildOnce(s)
				if k == 0 {
					first = r
					continue
				}
				if r.key() != first.key() && !reported {
					reported = true
					sig, why := "disassembly", "disassembly differs at "+firstDiff(first.Disasm, r.Disasm)
					switch {
					case r.Err != first.Err:
						sig, why = "error", fmt.Sprintf("build errors differ: %q / %q", first.Err, r.Err)
					case r.UsedVars != first.UsedVars:
						sig, why = "usedvars", fmt.Sprintf("UsedVars differ: %s / %s", first.UsedVars, r.UsedVars)
					}
					b, _ := json.Marshal(map[string]string{"sig": sig, "why": why})
					fmt.Fprintf(os.Stdout, "NONDET\t%d\t%s\n", i, b)
				}
			}
			run := runOnce(first)
			fmt.Fprintf(os.Stdout, "RES\t%d\t%s\t%s\t%v\n", i, hashStr(first.key()), run, first.Err == "")
			if os.Getenv("C30_DEBUG") != "" {
				fmt.Fprintf(os.Stderr, "%s\t%s\t%.150q\n", s.ID, run, first.Err)
			}
			if run == "hang" {
				// a goroutine of the interpreted program is still running: leave, the parent restarts after this source
				os.Stdout.Sync()
				os.Exit(3)
			}
			first = buildResult{}
			if i%20 == 19 {
				runtime.GC()
			}
		}
		os.Stdout.Sync()
	})

	Register("C30-sweep", func(c *Ctx) {
		debug.SetMemoryLimit(600 << 20)
		srcs := c30Sources(c)
		n := len(srcs)
		ids := make([]string, n)
		for i, s := range srcs {
			ids[i] = s.ID
		}
		detail := func(i int, why string) map[string]any {
			s := srcs[i]
			return map[string]any{"id": s.ID, "kind": s.Kind, "main": s.Main, "files": s.Files, "why": why}
		}
		shown := 0
		for lo := 0; lo < n; lo += c30Chunk {
			hi := min(lo+c30Chunk, n)
			res := make([][]c30Line, 3)
			done := make(chan int, 3)
			for ch := 0; ch < 3; ch++ {
				go func(ch int) {
					res[ch] = runChunk(c, lo, hi)
					done <- ch
				}(ch)
			}
			for ch := 0; ch < 3; ch++ {
				<-done
			}
			for i := lo; i < hi; i++ {
				failed := false
				for ch := 0; ch < 3 && !failed; ch++ {
					r := res[ch][i-lo]
					c.Add("evaluations", 8)
					if r.build == "" {
						c.Count("child-died")
						continue
					}
					if r.nondet != "" {
						var d struct{ Sig, Why string }
						json.Unmarshal([]byte(r.nondet), &d)
						c.Fail("nondeterministic-build:"+d.Sig, detail(i, d.Why))
						failed = true
						break
					}
					r0 := res[0][i-lo]
					if ch > 0 && r0.build != "" {
						if r.build != r0.build {
							c.Fail("nondeterministic-build:across-processes", detail(i, fmt.Sprintf("build result hash %s in one fresh process, %s in another", r0.build, r.build)))
							failed = true
						} else if r.run != r0.run && r.run != "timeout" && r0.run != "timeout" && r.run != "hang" && r0.run != "hang" && !unorderedOutput(srcs[i]) {
							c.Fail("nondeterministic-run", detail(i, fmt.Sprintf("run behaviour differs between processes: %s / %s", r0.run, r.run)))
							failed = true
						}
					}
				}
				if r := res[0][i-lo]; r.built {
					c.Count("nontrivial")
					c.Count("built:" + srcs[i].Kind)
					if shown < 3 && strings.HasPrefix(ids[i], "gen-") {
						shown++
						c.Sample(map[string]any{"id": ids[i], "build_hash": r.build, "run": r.run})
					}
				} else if r.build != "" {
					c.Count("build-error:" + srcs[i].Kind)
				}
			}
		}
	})
}

// unorderedOutput: programs whose output legitimately depends on map iteration, scheduling or time
func unorderedOutput(s srcSet) bool {
	for _, src := range s.Files {
		if strings.Contains(src, "select") || strings.Contains(src, "go func") || strings.Contains(src, "time.") || strings.Contains(src, "rand.") {
			return true
		}
		if s.Kind == "program" && strings.HasPrefix(s.ID, "corpus:") && strings.Contains(src, "range") && strings.Contains(src, "map[") {
			return true
		}
	}
	return false
}

// runChunk runs `C30-child` on the sources [lo, hi) under memory limits, restarting after a source on which the child died.
func runChunk(c *Ctx, lo, hi int) []c30Line {
	res := make([]c30Line, hi-lo)
	self, err := os.Executable()
	if err != nil {
		return res
	}
	start := lo
	for attempts := 0; start < hi && attempts < hi-lo+2; attempts++ {
		args := []string{"C30-child", "-seed", strconv.FormatInt(c.Seed, 10), "-n", strconv.Itoa(c.N), "-tier", c.Tier}
		if c.Arg != "" {
			args = append(args, "-arg", c.Arg)
		}
		quoted := make([]string, len(args))
		for i, a := range args {
			quoted[i] = "'" + strings.ReplaceAll(a, "'", "'\\''") + "'"
		}
		cmd := execCommand("sh", "-c", "ulimit -v 1600000; exec \"$0\" "+strings.Join(quoted, " "), self)
		cmd.Env = append(os.Environ(), "C30_START="+strconv.Itoa(start), "C30_END="+strconv.Itoa(hi), "GOMAXPROCS=4")
		out, _ := runWithTimeout(cmd, 5*time.Minute)
		last := start - 1
		for _, line := range strings.Split(string(out), "\n") {
			f := strings.Split(line, "\t")
			switch {
			case len(f) == 2 && f[0] == "BEGIN":
				last, _ = strconv.Atoi(f[1])
			case len(f) == 3 && f[0] == "NONDET":
				if i, _ := strconv.Atoi(f[1]); i >= lo && i < hi {
					res[i-lo].nondet = f[2]
				}
			case len(f) == 5 && f[0] == "RES":
				if i, _ := strconv.Atoi(f[1]); i >= lo && i < hi {
					res[i-lo].build, res[i-lo].run, res[i-lo].built = f[2], f[3], f[4] == "true"
				}
			}
		}
		if last < start {
			start++ // the child produced nothing for this source
		} else {
			start = last + 1
		}
	}
	return res
}

// programs made of several packages (go.mod in the file system): every
// package has variables and init functions, some are imported more than once
func multiPackageSources(c *Ctx) []srcSet {
	var out []srcSet
	for k := 0; k < 3; k++ {
		np := 3 + c.Rng.Intn(3)
		files := map[string]string{"go.mod": "module m\n\ngo 1.16\n"}
		var mainImports strings.Builder
		for p := 0; p < np; p++ {
			var b strings.Builder
			fmt.Fprintf(&b, "package p%d\n\n", p)
			if p+1 < np {
				fmt.Fprintf(&b, "import \"m/p%d\"\n", p+1)
			}
			if p+2 < np && c.Rng.Intn(2) == 0 {
				fmt.Fprintf(&b, "import \"m/p%d\"\n", p+2)
				fmt.Fprintf(&b, "\nvar W%d = p%d.V%d + 1\n", p, p+2, p+2)
			}
			fmt.Fprintf(&b, "\nvar V%d int = %d\nvar A%d, B%d = 1, 2\n", p, 40+p, p, p)
			if p+1 < np {
				fmt.Fprintf(&b, "\nfunc init() {\n\tp%d.V%d = p%d.V%d + %d\n}\n", p+1, p+1, p+1, p+1, p)
			}
			fmt.Fprintf(&b, "\nfunc init() {\n\tprintln(V%d, A%d, B%d)\n}\n\nfunc F%d() int { return V%d }\n", p, p, p, p, p)
			files[fmt.Sprintf("p%d/p%d.go", p, p)] = b.String()
			if p%2 == 0 || c.Rng.Intn(2) == 0 {
				fmt.Fprintf(&mainImports, "import \"m/p%d\"\n", p)
			} else {
				fmt.Fprintf(&mainImports, "import _ \"m/p%d\"\n", p)
			}
		}
		var body strings.Builder
		for p := 0; p < np; p++ {
			if strings.Contains(mainImports.String(), fmt.Sprintf("import \"m/p%d\"", p)) {
				fmt.Fprintf(&body, "\tprintln(p%d.F%d())\n", p, p)
			}
		}
		files["main.go"] = "package main\n\n" + mainImports.String() + "\nfunc init() { println(\"main init\") }\n\nfunc main() {\n" + body.String() + "}\n"
		out = append(out, srcSet{ID: fmt.Sprintf("gen-multipkg-%d", k), Kind: "program", Files: files})
	}
	return out
}
