// h_initorder: package-level variable initialisation order of Scriggo
// programs against the Coq model of sortDeclarations (sc_order) and against
// the real gc toolchain (which also validates the model of the Go rule, go_order).
package main

import (
	"fmt"
	"os"
	"os/exec"
	"path/filepath"
	"sort"
	"strings"

	"github.com/open2b/scriggo"
	"github.com/open2b/scriggo/native"

	. "verif/harness/hlib"
)

func main() { Main() }

type item struct {
	id   int
	refs []int
	// guarded: the references of a function (a subset of refs) that are
	// emitted in a branch never taken, so that functions can refer to each
	// other in cycles (recursion) without looping; a reference counts for the
	// initialisation order whether it is executed or not
	guarded map[int]bool
}

type pkg struct {
	vars, funcs []item // in declaration order
}

func (p pkg) isFunc(id int) bool {
	for _, f := range p.funcs {
		if f.id == id {
			return true
		}
	}
	return false
}

func enc(items []item) string {
	var parts []string
	for _, it := range items {
		rs := make([]string, len(it.refs))
		for i, r := range it.refs {
			rs[i] = fmt.Sprint(r)
		}
		parts = append(parts, fmt.Sprintf("%d:%s", it.id, strings.Join(rs, ",")))
	}
	return strings.Join(parts, ";")
}

func (p pkg) String() string { return enc(p.vars) + "|" + enc(p.funcs) }

// reachesVar reports whether function f refers, possibly through other functions, to a variable.
func (p pkg) reachesVar(f int, seen map[int]bool) bool {
	if seen[f] {
		return false
	}
	seen[f] = true
	for _, fn := range p.funcs {
		if fn.id != f {
			continue
		}
		for _, r := range fn.refs {
			if !p.isFunc(r) {
				return true
			}
			if p.reachesVar(r, seen) {
				return true
			}
		}
	}
	return false
}

// varOnCycle reports whether some variable refers, through any path of references, to itself.
func (p pkg) varOnCycle() bool {
	refs := map[int][]int{}
	for _, v := range p.vars {
		refs[v.id] = v.refs
	}
	for _, f := range p.funcs {
		refs[f.id] = f.refs
	}
	for _, v := range p.vars {
		seen := map[int]bool{}
		var walk func(id int) bool
		walk = func(id int) bool {
			for _, r := range refs[id] {
				if r == v.id {
					return true
				}
				if !seen[r] {
					seen[r] = true
					if walk(r) {
						return true
					}
				}
			}
			return false
		}
		if walk(v.id) {
			return true
		}
	}
	return false
}

// pure: no function referred to by an initialiser reaches a variable.
func (p pkg) pure() bool {
	for _, v := range p.vars {
		for _, r := range v.refs {
			if p.isFunc(r) && p.reachesVar(r, map[int]bool{}) {
				return false
			}
		}
	}
	return true
}

// gen builds an acyclic package: items get a hidden topological rank and refer
// only to items of lower rank; the declaration order is shuffled.
func gen(c *Ctx) pkg {
	nv := 1 + c.Rng.Intn(6)
	nf := c.Rng.Intn(4)
	type node struct {
		id     int
		isFunc bool
	}
	var nodes []node
	for i := 0; i < nv; i++ {
		nodes = append(nodes, node{1 + i, false})
	}
	for i := 0; i < nf; i++ {
		nodes = append(nodes, node{10 + i, true})
	}
	c.Rng.Shuffle(len(nodes), func(i, j int) { nodes[i], nodes[j] = nodes[j], nodes[i] })
	refs := map[int][]int{}
	for i, n := range nodes {
		k := c.Rng.Intn(3)
		if c.Rng.Intn(4) == 0 {
			k = 0
		}
		seen := map[int]bool{}
		for j := 0; j < k && i > 0; j++ {
			r := nodes[c.Rng.Intn(i)].id
			if !seen[r] {
				seen[r] = true
				refs[n.id] = append(refs[n.id], r)
			}
		}
	}
	var p pkg
	var vs, fs []int
	for _, n := range nodes {
		if n.isFunc {
			fs = append(fs, n.id)
		} else {
			vs = append(vs, n.id)
		}
	}
	c.Rng.Shuffle(len(vs), func(i, j int) { vs[i], vs[j] = vs[j], vs[i] })
	for _, id := range vs {
		p.vars = append(p.vars, item{id: id, refs: refs[id]})
	}
	for _, id := range fs {
		it := item{id: id, refs: refs[id]}
		// recursion among functions: a guarded reference to any function, itself included
		if len(fs) > 0 && c.Rng.Intn(2) == 0 {
			g := fs[c.Rng.Intn(len(fs))]
			dup := false
			for _, r := range it.refs {
				dup = dup || r == g
			}
			if !dup {
				it.refs = append(it.refs, g)
				it.guarded = map[int]bool{g: true}
			}
		}
		p.funcs = append(p.funcs, it)
	}
	// a cycle through a variable is an initialisation cycle (invalid Go): drop the guarded
	// references until no variable reaches itself
	for p.varOnCycle() {
		dropped := false
		for i := range p.funcs {
			if f := &p.funcs[i]; len(f.guarded) > 0 {
				f.refs = f.refs[:len(f.refs)-1]
				f.guarded = nil
				dropped = true
				break
			}
		}
		if !dropped {
			break
		}
	}
	return p
}

func name(id int) string {
	if id >= 10 {
		return fmt.Sprintf("f%d()", id)
	}
	return fmt.Sprintf("v%d", id)
}

// refExpr returns an expression with the value of the item r in which the
// reference to r stands in one of several syntactic positions (chosen by the
// two identifiers, so that every run of the same package prints the same
// source): the dependency analysis has to find it in each of them.
func refExpr(owner, r int) string {
	if r >= 10 {
		f := fmt.Sprintf("f%d", r)
		switch (owner*7 + r) % 5 {
		case 0:
			return "func() int { return " + f + "() }()"
		case 1:
			return "[]func() int{" + f + "}[0]()"
		case 2:
			return "map[string]func() int{\"k\": " + f + "}[\"k\"]()"
		case 3:
			return "struct{ g func() int }{g: " + f + "}.g()"
		}
		return f + "()"
	}
	v := fmt.Sprintf("v%d", r)
	switch (owner*5 + r) % 10 {
	case 0:
		return "[]int{" + v + "}[0]"
	case 1:
		return "func() int { for k := range map[int]bool{" + v + ": true} { return k }; return 0 }()"
	case 2:
		return "struct{ a int }{a: " + v + "}.a"
	case 3:
		return "struct{ a, b int }{1, " + v + "}.b"
	case 4:
		return "func() int { return " + v + " }()"
	case 5:
		return "map[string]int{\"k\": " + v + "}[\"k\"]"
	case 6:
		return "[2]int{1: " + v + "}[1]"
	case 7:
		return "[]struct{ a int }{{a: " + v + "}}[0].a"
	case 8:
		return "*(&[]int{" + v + "}[0])"
	}
	return v
}

// body returns the declarations of p; rec is the recording function's qualified name.
func (p pkg) decls(rec string) string {
	var b strings.Builder
	// variables and functions interleaved: variables in their order, functions after
	for i, v := range p.vars {
		e := fmt.Sprint(v.id)
		for _, r := range v.refs {
			e += " + " + refExpr(v.id, r)
		}
		// a field with the name of another variable of the package is not a reference to it (a
		// checker that takes it for one reports a cycle or changes the order: seeded C01-e and
		// the defect repaired by "the field names of a struct literal were taken as dependencies")
		if o := p.vars[(i+v.id)%len(p.vars)]; (v.id+len(v.refs))%3 == 0 {
			e += fmt.Sprintf(" + struct{ v%d int }{v%d: 0}.v%d", o.id, o.id, o.id)
		}
		fmt.Fprintf(&b, "var v%d = %s(%d, %s)\n", v.id, rec, v.id, e)
	}
	for _, f := range p.funcs {
		e := fmt.Sprint(f.id)
		g := ""
		for _, r := range f.refs {
			if f.guarded[r] {
				g += fmt.Sprintf("n := 0; if n > 0 { return %s }; ", name(r))
			} else {
				e += " + " + refExpr(f.id, r)
			}
		}
		fmt.Fprintf(&b, "func f%d() int { %sreturn %s }\n", f.id, g, e)
	}
	return b.String()
}

// runScriggo returns "order;values".
func runScriggo(p pkg) (string, error, string) {
	var order []string
	var vals []string
	src := "package main\nimport \"t\"\n" + p.decls("t.R") + "func main() {\n"
	ids := []int{}
	for _, v := range p.vars {
		ids = append(ids, v.id)
	}
	sort.Ints(ids)
	for _, id := range ids {
		src += fmt.Sprintf("\tt.V(v%d)\n", id)
	}
	src += "}\n"
	var err error
	hp := PanicText(func() {
		var prog *scriggo.Program
		prog, err = scriggo.Build(scriggo.Files{"go.mod": []byte("module m\n"), "main.go": []byte(src)},
			&scriggo.BuildOptions{Packages: native.Packages{"t": native.Package{Name: "t", Declarations: native.Declarations{
				"R": func(id, x int) int { order = append(order, fmt.Sprint(id)); return x },
				"V": func(x int) { vals = append(vals, fmt.Sprint(x)) },
			}}}})
		if err == nil {
			err = prog.Run(nil)
		}
	})
	return strings.Join(order, ",") + ";" + strings.Join(vals, ","), err, hp
}

// runGc builds one Go module with a package per case and returns "order;values" per case.
func runGc(ps []pkg) ([]string, error) {
	dir, err := os.MkdirTemp("", "verif-initorder-")
	if err != nil {
		return nil, err
	}
	defer os.RemoveAll(dir)
	os.WriteFile(filepath.Join(dir, "go.mod"), []byte("module gcinit\n\ngo 1.21\n"), 0o644)
	os.MkdirAll(filepath.Join(dir, "rec"), 0o755)
	os.WriteFile(filepath.Join(dir, "rec", "rec.go"), []byte("package rec\nvar Order = map[int][]int{}\nfunc R(c, id, x int) int { Order[c] = append(Order[c], id); return x }\n"), 0o644)
	main := "package main\nimport (\n\t\"fmt\"\n\t\"gcinit/rec\"\n"
	body := ""
	for i, p := range ps {
		pd := filepath.Join(dir, fmt.Sprintf("p%d", i))
		os.MkdirAll(pd, 0o755)
		decls := p.decls(fmt.Sprintf("r%d", i))
		src := fmt.Sprintf("package p%d\nimport \"gcinit/rec\"\nfunc r%d(id, x int) int { return rec.R(%d, id, x) }\n%s", i, i, i, decls)
		src += "func Vals() []int { return []int{"
		ids := []int{}
		for _, v := range p.vars {
			ids = append(ids, v.id)
		}
		sort.Ints(ids)
		for _, id := range ids {
			src += fmt.Sprintf("v%d, ", id)
		}
		src += "} }\n"
		os.WriteFile(filepath.Join(pd, "p.go"), []byte(src), 0o644)
		main += fmt.Sprintf("\t\"gcinit/p%d\"\n", i)
		body += fmt.Sprintf("\tfmt.Println(rec.Order[%d], p%d.Vals())\n", i, i)
	}
	main += ")\nfunc main() {\n" + body + "}\n"
	os.WriteFile(filepath.Join(dir, "main.go"), []byte(main), 0o644)
	cmd := exec.Command("go", "run", ".")
	cmd.Dir = dir
	cmd.Env = append(os.Environ(), "GOFLAGS=-mod=mod", "GOPROXY=off", "GOTOOLCHAIN=local", "GOWORK=off")
	out, err := cmd.CombinedOutput()
	if err != nil {
		return nil, fmt.Errorf("go run: %v: %s", err, out)
	}
	var res []string
	for _, l := range strings.Split(strings.TrimSpace(string(out)), "\n") {
		// "[1 2] [3 4]" -> "1,2;3,4"
		l = strings.TrimSpace(l)
		parts := strings.SplitN(l, "] [", 2)
		if len(parts) != 2 {
			return nil, fmt.Errorf("unexpected gc output %q", l)
		}
		o := strings.ReplaceAll(strings.Trim(parts[0], "[]"), " ", ",")
		v := strings.ReplaceAll(strings.Trim(parts[1], "[]"), " ", ",")
		res = append(res, o+";"+v)
	}
	if len(res) != len(ps) {
		return nil, fmt.Errorf("gc printed %d lines for %d cases", len(res), len(ps))
	}
	return res, nil
}

func cases(c *Ctx) []pkg {
	n := 60 + c.N/50
	if c.Thorough() {
		n = 400 + c.N/20
	}
	ps := []pkg{
		{vars: []item{{id: 1, refs: []int{10}}, {id: 2, refs: []int{11}}}, funcs: []item{{id: 10, refs: []int{2}}, {id: 11}}}, // the design-phase witness
		{vars: []item{{id: 1, refs: []int{2}}, {id: 2, refs: []int{3}}, {id: 3}}},
		{vars: []item{{id: 1}}},
		// a variable reached through mutually recursive functions
		{vars: []item{{id: 1, refs: []int{10}}, {id: 2}}, funcs: []item{{id: 10, refs: []int{11}}, {id: 11, refs: []int{2, 10}, guarded: map[int]bool{10: true}}}},
	}
	for i := 0; i < n; i++ {
		ps = append(ps, gen(c))
	}
	return ps
}

func init() {
	Register("C01-init-cases", func(c *Ctx) {
		ps := cases(c)
		for _, p := range ps {
			res, err, hp := runScriggo(p)
			r := "ok:" + strings.SplitN(res, ";", 2)[0]
			if err != nil || hp != "" {
				r = "error:" + fmt.Sprint(err) + hp
			}
			c.Line("sc_order", p.String(), r)
			c.Line("pure", p.String(), "ok:"+fmt.Sprint(p.pure()))
			c.Count("cases")
		}
		// the model of the Go rule against the real toolchain
		gc, err := runGc(ps)
		if err != nil {
			c.Line("go_order", "gc-unavailable", "error:"+err.Error())
			return
		}
		for i, p := range ps {
			c.Line("go_order", p.String(), "ok:"+strings.SplitN(gc[i], ";", 2)[0])
			c.Count("gc-cases")
		}
	})
	Register("C01-init-sweep", func(c *Ctx) {
		ps := cases(c)
		gc, err := runGc(ps)
		if err != nil {
			c.Fail("gc-unavailable", map[string]string{"error": err.Error()})
			return
		}
		for i, p := range ps {
			c.Count("evaluations")
			res, err, hp := runScriggo(p)
			if err != nil || hp != "" {
				c.Fail("init-order-run-failed", map[string]string{"package": p.String(), "error": fmt.Sprint(err), "host_panic": hp})
				continue
			}
			if len(p.vars) > 1 {
				c.Count("nontrivial")
			}
			if res == gc[i] {
				if i%40 == 0 {
					c.Sample(map[string]string{"package": p.String(), "order;values": res})
				}
				continue
			}
			sig := "init-order-differs"
			if !p.pure() {
				sig = "init-order-through-function"
			}
			c.Fail(sig, map[string]string{"package": p.String(), "source": p.decls("t.R"), "gc": gc[i], "scriggo": res})
		}
	})
}
