package main

import (
	"encoding/json"
	"errors"
	"fmt"
	"io/fs"
	"math/rand"
	"os"
	"path"
	"regexp"
	"sort"
	"strconv"
	"strings"
	"testing/fstest"
	"time"
	. "verif/harness/hlib"

	"github.com/open2b/scriggo"
	"github.com/open2b/scriggo/ast"
	"github.com/open2b/scriggo/verifhook"
)

// ---- case description (what the model receives) ----

type refSpec struct {
	Kind string `json:"k"` // E extends, I import, R render, D render with default
	Path string `json:"p"` // hex
}

// fileSpec describes one name of the file system.
//
//	src      : a template source (Format, DeclOnly, Refs)
//	syntax   : a source that does not parse
//	dir      : a directory (Open succeeds, Read fails)
//	openerr  : Open fails with an error that is not ErrNotExist
//	readerr  : Open succeeds, Read fails (NotExist tells the class of the error)
//	fmterr   : FormatFS.Format fails (NotExist tells the class of the error)
//	fmtrange : FormatFS.Format returns a format out of range
type fileSpec struct {
	Name     string    `json:"name"` // hex
	Type     string    `json:"type"`
	Format   int       `json:"format"`
	DeclOnly bool      `json:"declonly"`
	NotExist bool      `json:"notexist"`
	Refs     []refSpec `json:"refs"`
}

type caseSpec struct {
	Root     string     `json:"root"` // hex
	FormatFS bool       `json:"formatfs"`
	Files    []fileSpec `json:"files"`
}

func (f *fileSpec) name() string { return Unhx(f.Name) }

// encode gives the graph field of the line protocol.
func (cs *caseSpec) encode() string {
	var parts []string
	for _, f := range cs.Files {
		var spec string
		ne := "0"
		if f.NotExist {
			ne = "1"
		}
		switch f.Type {
		case "src":
			d := "0"
			if f.DeclOnly {
				d = "1"
			}
			var refs []string
			for _, r := range f.Refs {
				refs = append(refs, r.Kind+r.Path)
			}
			spec = "f" + strconv.Itoa(f.Format) + ":" + d + ":" + strings.Join(refs, ",")
		case "syntax":
			spec = "s"
		case "dir":
			spec = "r0"
		case "openerr":
			spec = "o0"
		case "readerr", "fmterr":
			spec = "r" + ne
		case "fmtrange":
			spec = "r0"
		default:
			panic("file type " + f.Type)
		}
		parts = append(parts, f.Name+"="+spec)
	}
	return strings.Join(parts, "|")
}

// ---- sources ----

func extFormat(name string) int {
	switch path.Ext(name) {
	case ".html":
		return 1
	case ".css":
		return 2
	case ".js":
		return 3
	case ".json":
		return 4
	case ".md", ".mdx", ".mkd", ".mkdn", ".mdown", ".markdown":
		return 5
	}
	return 0
}

// source renders the template source of a src file: extends first, then the
// imports, then the renders (inside a macro when the file has only declarations).
func source(f *fileSpec, idx int) string {
	var b strings.Builder
	var renders []refSpec
	for _, r := range f.Refs {
		p := strconv.Quote(Unhx(r.Path))
		switch r.Kind {
		case "E":
			fmt.Fprintf(&b, "{%% extends %s %%}\n", p)
		case "I":
			fmt.Fprintf(&b, "{%% import %s %%}\n", p)
		default:
			renders = append(renders, r)
		}
	}
	if f.DeclOnly {
		fmt.Fprintf(&b, "{%% macro M%d %%}", idx)
	} else {
		b.WriteString("text ")
	}
	for _, r := range renders {
		p := strconv.Quote(Unhx(r.Path))
		if r.Kind == "D" {
			fmt.Fprintf(&b, "{{ render %s default \"\" }}", p)
		} else {
			fmt.Fprintf(&b, "{{ render %s }}", p)
		}
	}
	if f.DeclOnly {
		b.WriteString("{% end %}\n")
	}
	return b.String()
}

// ---- recording file system ----

type openRec struct {
	Name string
	OK   bool
}

type recFS struct {
	m      fstest.MapFS
	inject map[string]*fileSpec // by name: openerr, readerr, fmterr, fmtrange
	format map[string]int
	opens  []openRec
}

type failFile struct {
	fs.File
	err error
}

func (f failFile) Read([]byte) (int, error) { return 0, f.err }

func classErr(op, name string, notExist bool) error {
	if notExist {
		return &fs.PathError{Op: op, Path: name, Err: fs.ErrNotExist}
	}
	return &fs.PathError{Op: op, Path: name, Err: fs.ErrPermission}
}

// maxOpens bounds the opens of one build: a build that does not detect a
// cycle would otherwise end in a fatal stack overflow of the harness. The
// panic is recovered by the caller and reported as a failure of the case.
const maxOpens = 2000

func (r *recFS) Open(name string) (fs.File, error) {
	if len(r.opens) >= maxOpens {
		panic("verif: more than 2000 calls of Open in one build (no termination)")
	}
	if sp := r.inject[name]; sp != nil && sp.Type == "openerr" {
		r.opens = append(r.opens, openRec{name, false})
		return nil, classErr("open", name, false)
	}
	f, err := r.m.Open(name)
	r.opens = append(r.opens, openRec{name, err == nil})
	if err != nil {
		return nil, err
	}
	if sp := r.inject[name]; sp != nil && sp.Type == "readerr" {
		return failFile{f, classErr("read", name, sp.NotExist)}, nil
	}
	return f, nil
}

// recFormatFS is a recFS that also implements scriggo.FormatFS.
type recFormatFS struct{ *recFS }

func (r recFormatFS) Format(name string) (scriggo.Format, error) {
	if sp := r.inject[name]; sp != nil {
		switch sp.Type {
		case "fmterr":
			return 0, classErr("format", name, sp.NotExist)
		case "fmtrange":
			return scriggo.Format(9), nil
		}
	}
	return scriggo.Format(r.format[name]), nil
}

// astFormatFS adapts a scriggo.FormatFS to the compiler's FormatFS, as the
// unexported scriggo.formatFS does inside BuildTemplate.
type astFormatFS struct{ recFormatFS }

func (r astFormatFS) Format(name string) (ast.Format, error) {
	f, err := r.recFormatFS.Format(name)
	return ast.Format(f), err
}

// build makes the file system of a case.
func (cs *caseSpec) fsys() (*recFS, fs.FS) {
	r := &recFS{m: fstest.MapFS{}, inject: map[string]*fileSpec{}, format: map[string]int{}}
	for i := range cs.Files {
		f := &cs.Files[i]
		name := f.name()
		switch f.Type {
		case "src":
			r.m[name] = &fstest.MapFile{Data: []byte(source(f, i))}
			r.format[name] = f.Format
		case "syntax":
			r.m[name] = &fstest.MapFile{Data: []byte("{% if %}")}
		case "dir":
			// fstest.MapFS synthesizes the directories of its files
		case "openerr":
			r.m[name] = &fstest.MapFile{Data: []byte("x")}
			r.inject[name] = f
		case "readerr", "fmterr", "fmtrange":
			r.m[name] = &fstest.MapFile{Data: []byte("x")}
			r.inject[name] = f
		}
	}
	if cs.FormatFS {
		return r, recFormatFS{r}
	}
	return r, r
}

func opensString(o []openRec) string {
	var parts []string
	for _, x := range o {
		ok := "0"
		if x.OK {
			ok = "1"
		}
		parts = append(parts, Hx(x.Name)+":"+ok)
	}
	return strings.Join(parts, ",")
}

var (
	reNoFile   = regexp.MustCompile(`^(extends|render) path (".*") does not exist$`)
	reConflict = regexp.MustCompile(`^(import|render) of file (extended|imported|rendered) at `)
	reFormat   = regexp.MustCompile(`^extended file ".*" is .* instead of .*$`)
)

// parseClass maps the error of compiler.ParseTemplate to the model's classes.
func parseClass(err error) string {
	if err == nil {
		return "ok"
	}
	if err == os.ErrInvalid {
		return "invalid"
	}
	if p, msg, ok := verifhook.AsCycleError(err); ok {
		return "cycle:" + Hx(p) + ":" + Hx(msg)
	}
	if msg, ok := verifhook.AsSyntaxError(err); ok {
		if m := reNoFile.FindStringSubmatch(msg); m != nil {
			rp, e := strconv.Unquote(m[2])
			if e != nil {
				return "syntax-unquote"
			}
			return "nofile:" + m[1] + ":" + Hx(rp)
		}
		switch {
		case msg == "imported and rendered files can not have extends":
			return "extnotallowed"
		case reConflict.MatchString(msg):
			return "conflict"
		case reFormat.MatchString(msg):
			return "format"
		}
		return "syntax"
	}
	if errors.Is(err, fs.ErrNotExist) {
		return "notexist"
	}
	return "fs"
}

// buildClass maps the error of scriggo.BuildTemplate to the outcome classes
// ok / invalid / notexist / fs / cycle / other.
func buildClass(err error) string {
	if err == nil {
		return "ok"
	}
	if err == os.ErrInvalid {
		return "invalid"
	}
	var be *scriggo.BuildError
	if errors.As(err, &be) {
		msg := be.Message()
		if strings.HasPrefix(msg, "file ") && strings.HasSuffix(msg, ": cycle not allowed") {
			return "cycle:" + Hx(be.Path()) + ":" + Hx(msg)
		}
		return "other"
	}
	if errors.Is(err, fs.ErrNotExist) {
		return "notexist"
	}
	return "fs"
}

type runResult struct {
	parseOpens, buildOpens []openRec
	parseErr, buildErr     error
	panicText              string
	elapsed                time.Duration
}

func (cs *caseSpec) run() runResult {
	var res runResult
	root := Unhx(cs.Root)
	t0 := time.Now()
	res.panicText = PanicText(func() {
		r1, f1 := cs.fsys()
		if ff, ok := f1.(recFormatFS); ok {
			f1 = astFormatFS{ff}
		}
		res.parseErr = verifhook.ParseTemplateErr(f1, root)
		res.parseOpens = r1.opens
		r2, f2 := cs.fsys()
		_, res.buildErr = scriggo.BuildTemplate(f2, root, nil)
		res.buildOpens = r2.opens
	})
	res.elapsed = time.Since(t0)
	return res
}

// ---- generator of file graphs (treegen) ----

var dirPool = []string{"", "", "", "a", "a", "a/b", "c", "..x", "a/..y", "d.e", "é"}
var namePool = []string{"index", "f1", "f2", "f3", "f4", "lay", "inc", "..z", "x..", ".h", "-"}
var extPool = []string{".txt", ".txt", ".txt", ".html", ".html", ".md", ""}

var hostilePaths = []string{
	"..", ".", "", "/", "//", "a//b", "a/./b", "x/../y", "../", "../..", "/..", "/.", "./x", "a/", "/a/", "\xff", "a/\xc3",
	"../../../../../../etc/passwd", "/../x", "..x", "../..x", "/..x", "...", "../.../x", "a/..", "\x00", "a\\b",
}

func relTo(fromDir, target string) string {
	var fd []string
	if fromDir != "" {
		fd = strings.Split(fromDir, "/")
	}
	te := strings.Split(target, "/")
	i := 0
	for i < len(fd) && i < len(te)-1 && fd[i] == te[i] {
		i++
	}
	return strings.Repeat("../", len(fd)-i) + strings.Join(te[i:], "/")
}

func dirOf(name string) string {
	if i := strings.LastIndexByte(name, '/'); i >= 0 {
		return name[:i]
	}
	return ""
}

// refPath writes a reference from file `from` to `target` (a name of the file system).
func refPath(r *rand.Rand, from, target string) string {
	switch r.Intn(24) {
	case 0, 1, 2, 6, 7, 8:
		return "/" + target
	case 3:
		// one level too many: escapes or lands elsewhere
		return "../" + relTo(dirOf(from), target)
	case 4:
		return hostilePaths[r.Intn(len(hostilePaths))]
	case 5:
		// climbs to the root exactly, then descends
		d := dirOf(from)
		n := 0
		if d != "" {
			n = strings.Count(d, "/") + 1
		}
		return strings.Repeat("../", n) + target
	}
	return relTo(dirOf(from), target)
}

// genCase generates a file graph. size is the maximal number of source files.
func genCase(r *rand.Rand, size int, hostile bool) *caseSpec {
	cs := &caseSpec{FormatFS: r.Intn(4) == 0}
	n := 1 + r.Intn(size)
	names := []string{}
	seen := map[string]bool{}
	isDir := map[string]bool{}
	for len(names) < n {
		d := dirPool[r.Intn(len(dirPool))]
		nm := namePool[r.Intn(len(namePool))] + extPool[r.Intn(len(extPool))]
		if n > len(namePool) {
			nm = fmt.Sprintf("g%d", len(names)) + extPool[r.Intn(len(extPool))]
		}
		full := nm
		if d != "" {
			full = d + "/" + nm
		}
		if seen[full] || isDir[full] {
			continue
		}
		// a name cannot be both a file and a directory
		clash := false
		for p := dirOf(full); p != ""; p = dirOf(p) {
			if seen[p] {
				clash = true
			}
		}
		if clash {
			continue
		}
		for p := dirOf(full); p != ""; p = dirOf(p) {
			isDir[p] = true
		}
		seen[full] = true
		names = append(names, full)
	}
	missing := []string{"missing.txt", "a/none.html", "zz/q.txt"}
	dirs := []string{}
	for d := range isDir {
		dirs = append(dirs, d)
	}
	sort.Strings(dirs)
	oneFormat := r.Intn(3) > 0
	baseFormat := r.Intn(6)
	declOnly := make([]bool, n)
	for i := range declOnly {
		declOnly[i] = r.Intn(2) == 0
	}
	cur := 0
	pick := func(wantDecl bool) string {
		if cur+1 < n && r.Intn(16) > 0 {
			// mostly forward references, so that many graphs are acyclic
			i := cur + 1 + r.Intn(n-cur-1)
			for try := 0; try < 3 && wantDecl && !declOnly[i]; try++ {
				i = cur + 1 + r.Intn(n-cur-1)
			}
			return names[i]
		}
		switch x := r.Intn(30); {
		case x == 0:
			return missing[r.Intn(len(missing))]
		case x == 1 && len(dirs) > 0:
			return dirs[r.Intn(len(dirs))]
		}
		if wantDecl && r.Intn(5) > 0 {
			for try := 0; try < 4; try++ {
				if i := r.Intn(n); declOnly[i] {
					return names[i]
				}
			}
		}
		return names[r.Intn(n)]
	}
	// density of references: fewer for large graphs so that builds do not fail at once
	maxRenders := 3
	for i, name := range names {
		cur = i
		f := fileSpec{Name: Hx(name), Type: "src", Format: extFormat(name)}
		if cs.FormatFS {
			f.Format = baseFormat
			if !oneFormat {
				f.Format = r.Intn(6)
			}
		}
		switch x := r.Intn(100); {
		case x == 0:
			f.Type = "syntax"
		case x == 1:
			f.Type = "openerr"
		case x == 2:
			f.Type = "readerr"
			f.NotExist = hostile && r.Intn(2) == 0
		case x == 3 && cs.FormatFS:
			f.Type = "fmterr"
			f.NotExist = hostile && r.Intn(2) == 0
		case x == 4 && cs.FormatFS:
			f.Type = "fmtrange"
		}
		leaf := i == n-1 && r.Intn(4) > 0 // most last files reference nothing (no forward target)
		if f.Type == "src" {
			f.DeclOnly = declOnly[i]
		}
		if f.Type == "src" && !leaf {
			if r.Intn(5) == 0 {
				f.Refs = append(f.Refs, refSpec{"E", Hx(refPath(r, name, pick(false)))})
				f.DeclOnly = true
			}
			for k := r.Intn(3); k > 0; k-- {
				f.Refs = append(f.Refs, refSpec{"I", Hx(refPath(r, name, pick(true)))})
			}
			for k := r.Intn(maxRenders + 1); k > 0; k-- {
				kind := "R"
				if r.Intn(4) == 0 {
					kind = "D"
				}
				f.Refs = append(f.Refs, refSpec{kind, Hx(refPath(r, name, pick(false)))})
			}
		}
		cs.Files = append(cs.Files, f)
	}
	for _, d := range dirs {
		cs.Files = append(cs.Files, fileSpec{Name: Hx(d), Type: "dir"})
	}
	switch x := r.Intn(30); {
	case x == 0:
		cs.Root = Hx([]string{".", "a/", "", "/", "a/../index.txt", "/index.txt", "missing.txt", "a//b"}[r.Intn(8)])
	case x == 1 && len(dirs) > 0:
		cs.Root = Hx(dirs[0])
	default:
		cs.Root = Hx(names[r.Intn(min(n, 3))])
	}
	return cs
}

// shaped graphs: long chains closing a cycle, diamonds, self references
func genShaped(r *rand.Rand, i int) *caseSpec {
	cs := &caseSpec{}
	kinds := []string{"R", "D", "I", "R"}
	mk := func(name string, decl bool, refs ...refSpec) {
		cs.Files = append(cs.Files, fileSpec{Name: Hx(name), Type: "src", Format: extFormat(name), DeclOnly: decl, Refs: refs})
	}
	switch i % 4 {
	case 0: // chain of length n that closes on element j
		n := 2 + r.Intn(7)
		j := r.Intn(n)
		for k := 0; k < n; k++ {
			next := (k + 1)
			target := fmt.Sprintf("d%d/c%d.txt", next%3, next)
			if next == n {
				target = fmt.Sprintf("d%d/c%d.txt", j%3, j)
			}
			from := fmt.Sprintf("d%d/c%d.txt", k%3, k)
			kd := kinds[r.Intn(len(kinds))]
			mk(from, true, refSpec{kd, Hx(refPath(r, from, target))})
		}
		cs.Root = Hx("d0/c0.txt")
	case 1: // diamond: root -> a, b ; a -> d ; b -> d ; d -> leaf
		kd := kinds[r.Intn(len(kinds))]
		mk("index.txt", false, refSpec{"R", Hx("a.txt")}, refSpec{"R", Hx("/s/b.txt")})
		mk("a.txt", true, refSpec{kd, Hx("s/d.txt")})
		mk("s/b.txt", true, refSpec{kd, Hx("d.txt")})
		mk("s/d.txt", true, refSpec{"R", Hx("../leaf.txt")})
		mk("leaf.txt", false)
		cs.Root = Hx("index.txt")
	case 2: // self reference of every kind, from a sub-directory
		kd := []string{"E", "I", "R", "D"}[r.Intn(4)]
		mk("a/self.txt", true, refSpec{kd, Hx([]string{"self.txt", "/a/self.txt", "../a/self.txt"}[r.Intn(3)])})
		cs.Root = Hx("a/self.txt")
	case 3: // extends chain with imports and renders shared between the levels
		mk("index.html", true, refSpec{"E", Hx("l/one.html")}, refSpec{"I", Hx("inc.html")}, refSpec{"R", Hx("part.html")})
		mk("l/one.html", true, refSpec{"E", Hx("two.html")}, refSpec{"I", Hx("/inc.html")})
		mk("l/two.html", false, refSpec{"R", Hx("../part.html")}, refSpec{"D", Hx("nothing.html")})
		mk("inc.html", true, refSpec{"R", Hx("part.html")})
		last := []refSpec{}
		if r.Intn(2) == 0 {
			last = append(last, refSpec{"R", Hx("/index.html")})
		}
		mk("part.html", false, last...)
		cs.Root = Hx("index.html")
	}
	return cs
}

func caseFromReplay(in map[string]any) *caseSpec {
	b, _ := json.Marshal(in["case"])
	cs := &caseSpec{}
	if json.Unmarshal(b, cs) != nil || cs.Files == nil {
		return nil
	}
	return cs
}

func init() {
	// correspondence of the expansion: recorded opens and outcome classes of
	// compiler.ParseTemplate and scriggo.BuildTemplate against the model
	Register("C18-cases", func(c *Ctx) {
		if c.ReplayInput() != nil {
			return
		}
		emit := func(cs *caseSpec) {
			res := cs.run()
			var out string
			if res.panicText != "" {
				out = "panic"
			} else {
				out = "opens=" + opensString(res.parseOpens) + ";parse=" + parseClass(res.parseErr) +
					";bopens=" + opensString(res.buildOpens) + ";build=" + buildClass(res.buildErr)
			}
			c.Line("expand", cs.Root, cs.encode(), out)
			c.Count("cases")
			c.Count("parse-" + strings.SplitN(parseClass(res.parseErr), ":", 2)[0])
		}
		for i := 0; i < 40; i++ {
			emit(genShaped(c.Rng, i))
		}
		for i := 0; i < c.N; i++ {
			emit(genCase(c.Rng, 2+i%9, i%5 == 0))
		}
	})
}
