// h_paths: implementation side of the engine `paths` (C18 template file
// loading, C17 template variables).
package main

import (
	"io/fs"
	"math/rand"
	"path"
	"strconv"
	. "verif/harness/hlib"

	"github.com/open2b/scriggo/verifhook"
)

func main() { Main() }

// ---- generators of path strings ----

var pathTokens = []string{
	"/", "/", "//", ".", "..", "../", "./", "a", "b", "bc", "..x", "x..", ".x", "...", "é", "\xff", "\xc3", "\xa9",
	"\xf0\x9f\x98\x80", "\xed\xa0\x80", "-", " ", "index.html", "a/b", "a/../b", "../../", "\x00", "\\", "x.y",
}

func randPath(r *rand.Rand) string {
	n := r.Intn(9)
	b := []byte{}
	for i := 0; i < n; i++ {
		switch r.Intn(12) {
		case 0:
			b = append(b, byte(r.Intn(256)))
		case 1, 2, 3:
			b = append(b, '/')
		default:
			b = append(b, pathTokens[r.Intn(len(pathTokens))]...)
		}
	}
	return string(b)
}

var elemPool = []string{"a", "b", "c", "d.e", "..x", "x..", "...", ".h", "é", "index.html", "f1.txt", "-", "a b"}

// randValidPath returns a path that is fs.ValidPath (and not ".").
func randValidPath(r *rand.Rand) string {
	n := 1 + r.Intn(4)
	s := ""
	for i := 0; i < n; i++ {
		if i > 0 {
			s += "/"
		}
		s += elemPool[r.Intn(len(elemPool))]
	}
	return s
}

// randTemplatePath returns a mostly valid template path.
func randTemplatePath(r *rand.Rand) string {
	switch r.Intn(10) {
	case 0:
		return randPath(r)
	case 1, 2:
		return "/" + randValidPath(r)
	}
	s := ""
	for k := r.Intn(5); k > 0; k-- {
		s += "../"
	}
	return s + randValidPath(r)
}

func pathInputs(c *Ctx, f func(s string)) {
	maxLen := 8
	if c.Thorough() {
		maxLen = 10
	}
	EnumStrings([]byte{'/', '.', 'a'}, maxLen, f)
	EnumStrings([]byte{'/', '.', 'a', 0xC3, 0xA9}, 5, f)
	for i := 0; i < c.N; i++ {
		switch i % 4 {
		case 0:
			f(randValidPath(c.Rng))
		case 1:
			f(randTemplatePath(c.Rng))
		default:
			f(randPath(c.Rng))
		}
	}
}

func rootedResult(parent, name string) string {
	return Protect(func() string {
		r, ok := verifhook.Rooted(parent, name)
		if !ok {
			return "notexist"
		}
		return "ok:" + Hx(r)
	})
}

func init() {
	// correspondence of the path functions: Go's path package, io/fs.ValidPath,
	// compiler.ValidTemplatePath and compiler.rooted against the Coq models
	Register("C18-paths", func(c *Ctx) {
		if c.ReplayInput() != nil {
			return
		}
		pathInputs(c, func(s string) {
			c.Line("clean", Hx(s), "ok:"+Hx(path.Clean(s)))
			c.Line("dir", Hx(s), "ok:"+Hx(path.Dir(s)))
			c.Line("isabs", Hx(s), strconv.FormatBool(path.IsAbs(s)))
			c.Line("validpath", Hx(s), strconv.FormatBool(fs.ValidPath(s)))
			c.Line("validtpath", Hx(s), strconv.FormatBool(verifhook.ValidTemplatePath(s)))
			c.Add("cases", 5)
		})
		n := c.N
		for i := 0; i < n; i++ {
			var a, b string
			if i%2 == 0 {
				a, b = randPath(c.Rng), randPath(c.Rng)
			} else {
				a, b = randValidPath(c.Rng), randTemplatePath(c.Rng)
			}
			c.Line("join", Hx(a), Hx(b), "ok:"+Hx(path.Join(a, b)))
			c.Count("cases")
		}
		// rooted: exhaustive small parents x names, then structured random
		small := []string{}
		EnumStrings([]byte{'/', '.', 'a'}, 4, func(s string) { small = append(small, s) })
		for _, p := range small {
			for _, nm := range small {
				c.Line("rooted", Hx(p), Hx(nm), rootedResult(p, nm))
				c.Count("cases")
			}
		}
		for i := 0; i < n; i++ {
			var p, nm string
			switch i % 8 {
			case 0:
				p, nm = randPath(c.Rng), randPath(c.Rng)
			default:
				p, nm = randValidPath(c.Rng), randTemplatePath(c.Rng)
			}
			c.Line("rooted", Hx(p), Hx(nm), rootedResult(p, nm))
			c.Count("cases")
		}
	})
}
