package main

import (
	"bytes"
	"errors"
	"io/fs"
	"os"
	"path/filepath"
	"strconv"
	"strings"
	"time"
	. "verif/harness/hlib"

	"github.com/open2b/scriggo"
)

// ---- independent oracle: lexical resolution on elements and the reference graph ----

// oracleResolve resolves ref against the directory of parent without using
// the path package. ok is false when the resolution climbs above the root.
func oracleResolve(parent, ref string) (string, bool) {
	if strings.HasPrefix(ref, "/") {
		return ref[1:], true
	}
	stack := strings.Split(parent, "/")
	stack = stack[:len(stack)-1]
	for _, e := range strings.Split(ref, "/") {
		if e == ".." {
			if len(stack) == 0 {
				return "", false
			}
			stack = stack[:len(stack)-1]
		} else {
			stack = append(stack, e)
		}
	}
	r := strings.Join(stack, "/")
	// documented oddity of rooted (see props/C18.v, C18_ex_dotdot_name): a
	// relative reference whose resolution begins with two dots is not found
	if strings.HasPrefix(r, "..") {
		return "", false
	}
	return r, true
}

// oracleValidRef tells whether a reference is acceptable to the parser
// (independent of compiler.ValidTemplatePath): optional leading slash or
// leading ../ elements, then a valid path that is not ".".
func oracleValidRef(ref string) bool {
	rest := ref
	if strings.HasPrefix(rest, "/") {
		rest = rest[1:]
	} else {
		for strings.HasPrefix(rest, "../") {
			rest = rest[3:]
		}
	}
	return rest != "." && fs.ValidPath(rest)
}

type oracle struct {
	src map[string]*fileSpec // source files by name
}

func newOracle(cs *caseSpec) *oracle {
	o := &oracle{src: map[string]*fileSpec{}}
	for i := range cs.Files {
		if f := &cs.Files[i]; f.Type == "src" {
			o.src[f.name()] = f
		}
	}
	return o
}

// targets returns the sources referenced by the source a.
func (o *oracle) targets(a string) []string {
	var out []string
	f := o.src[a]
	if f == nil {
		return nil
	}
	for _, r := range f.Refs {
		p := Unhx(r.Path)
		if !oracleValidRef(p) {
			continue
		}
		if t, ok := oracleResolve(a, p); ok && o.src[t] != nil {
			out = append(out, t)
		}
	}
	return out
}

// reachable returns the sources reachable from root and whether a cycle is
// reachable.
func (o *oracle) reachable(root string) (map[string]bool, bool) {
	seen := map[string]int{} // 1 on stack, 2 done
	cycle := false
	var dfs func(a string)
	dfs = func(a string) {
		seen[a] = 1
		for _, t := range o.targets(a) {
			switch seen[t] {
			case 0:
				dfs(t)
			case 1:
				cycle = true
			}
		}
		seen[a] = 2
	}
	out := map[string]bool{}
	if o.src[root] != nil {
		dfs(root)
	}
	for k := range seen {
		out[k] = true
	}
	return out, cycle
}

// checkCase evaluates the property on the real BuildTemplate for one case.
func checkCase(c *Ctx, cs *caseSpec) {
	c.Count("evaluations")
	root := Unhx(cs.Root)
	rec, fsys := cs.fsys()
	type result struct {
		err   error
		panic string
	}
	done := make(chan result, 1)
	go func() {
		var r result
		r.panic = PanicText(func() { _, r.err = scriggo.BuildTemplate(fsys, root, nil) })
		done <- r
	}()
	var res result
	select {
	case res = <-done:
	case <-time.After(20 * time.Second):
		c.Fail("build-does-not-terminate", map[string]any{"case": cs, "after": "20s"})
		return
	}
	detail := func(why string) map[string]any {
		return map[string]any{"case": cs, "why": why, "opens": opensString(rec.opens), "error": errText(res.err)}
	}
	if res.panic != "" {
		c.Fail("build-panics", detail(res.panic))
		return
	}
	o := newOracle(cs)
	consistent := true
	for _, f := range cs.Files {
		if (f.Type == "readerr" || f.Type == "fmterr") && f.NotExist {
			consistent = false
		}
	}
	// 1. every name given to Open is valid (the root name is the caller's)
	for i, op := range rec.opens {
		if i == 0 && op.Name == root {
			continue
		}
		if !fs.ValidPath(op.Name) || strings.HasPrefix(op.Name, "../") || strings.HasPrefix(op.Name, "/") || op.Name == ".." {
			c.Fail("open-invalid-name", detail("Open("+strconv.Quote(op.Name)+")"))
			return
		}
	}
	// 2. every opened name is the lexical resolution of a reference of a file read before
	if fs.ValidPath(root) {
		read := []string{}
		for i, op := range rec.opens {
			if i > 0 {
				found := false
				for _, a := range read {
					f := o.src[a]
					if f == nil {
						continue
					}
					for _, r := range f.Refs {
						if t, ok := oracleResolve(a, Unhx(r.Path)); ok && t == op.Name && oracleValidRef(Unhx(r.Path)) {
							found = true
						}
					}
				}
				if !found {
					c.Fail("open-not-a-resolution", detail("Open("+strconv.Quote(op.Name)+") is not the resolution of a reference of a file read before"))
					return
				}
			}
			if op.OK {
				read = append(read, op.Name)
			}
		}
	}
	// 3. no file read twice
	if consistent {
		seen := map[string]bool{}
		for _, op := range rec.opens {
			if op.OK {
				if seen[op.Name] {
					c.Fail("file-read-twice", detail(op.Name))
					return
				}
				seen[op.Name] = true
			}
		}
	}
	// 4. a reachable cycle is an error; a cycle error needs a cycle
	reach, cycle := o.reachable(root)
	isCycleErr := res.err != nil && strings.HasSuffix(res.err.Error(), ": cycle not allowed")
	if cycle && res.err == nil {
		c.Fail("cycle-not-reported", detail("a cycle is reachable from the root and the build succeeds"))
		return
	}
	if isCycleErr && !cycle {
		c.Fail("cycle-error-without-cycle", detail("cycle error but the reference graph has no reachable cycle"))
		return
	}
	// 5. a successful build has read every reachable source exactly once
	if res.err == nil {
		got := map[string]bool{}
		for _, op := range rec.opens {
			if op.OK {
				got[op.Name] = true
			}
		}
		for a := range reach {
			if !got[a] {
				c.Fail("reachable-file-not-read", detail(a))
				return
			}
		}
	}
	// 6. a reference that leaves the root is never satisfied: covered by 1 and 2
	if len(rec.opens) >= 2 {
		c.Count("nontrivial")
	}
	if cycle {
		c.Count("with-cycle")
	}
	if res.err == nil {
		c.Count("build-ok")
	}
	if len(c.Samples) < 3 && len(rec.opens) >= 3 {
		c.Sample(map[string]any{"root": root, "opens": len(rec.opens), "error": errText(res.err)})
	}
}

func errText(err error) string {
	if err == nil {
		return ""
	}
	s := err.Error()
	if len(s) > 300 {
		s = s[:300]
	}
	return s
}

// ---- a real directory with a file outside the root ----

type dirRec struct {
	fsys  fs.FS
	opens []openRec
}

func (d *dirRec) Open(name string) (fs.File, error) {
	f, err := d.fsys.Open(name)
	d.opens = append(d.opens, openRec{name, err == nil})
	return f, err
}

var escapingRefs = []string{
	"../secret.txt", "../../secret.txt", "/../secret.txt", "a/../../secret.txt", "../root/../secret.txt",
	"..", "../", "/..", "....//secret.txt", "..\\secret.txt", "sub/../../secret.txt", "../sub/../../secret.txt",
	"/secret.txt", "secret.txt", "../secret.txt\x00", "%2e%2e/secret.txt", "./../secret.txt", "sub/../../../secret.txt",
}

func checkDirFS(c *Ctx, tmp string, ref string, from string) {
	c.Count("evaluations")
	root := filepath.Join(tmp, "root")
	src := "x{{ render " + strconv.Quote(ref) + " }}y"
	if os.WriteFile(filepath.Join(root, from), []byte(src), 0o644) != nil {
		return
	}
	d := &dirRec{fsys: os.DirFS(root)}
	var out bytes.Buffer
	var err error
	msg := PanicText(func() {
		var t *scriggo.Template
		t, err = scriggo.BuildTemplate(d, from, nil)
		if err == nil {
			err = t.Run(&out, nil, nil)
		}
	})
	detail := map[string]any{"dirfs": true, "ref": Hx(ref), "from": from, "opens": opensString(d.opens), "error": errText(err), "panic": msg}
	if msg != "" {
		c.Fail("build-panics", detail)
		return
	}
	if strings.Contains(out.String(), "TOPSECRET") {
		c.Fail("file-outside-root-read", detail)
		return
	}
	for _, op := range d.opens {
		abs := filepath.Join(root, filepath.FromSlash(op.Name))
		if rel, e := filepath.Rel(root, abs); e != nil || rel == ".." || strings.HasPrefix(rel, "../") || !fs.ValidPath(op.Name) {
			c.Fail("open-outside-root", detail)
			return
		}
	}
	if errors.Is(err, fs.ErrNotExist) || err != nil {
		c.Count("escape-refused")
	}
}

func init() {
	Register("C18-sweep", func(c *Ctx) {
		if in := c.ReplayInput(); in != nil {
			if cs := caseFromReplay(in); cs != nil {
				checkCase(c, cs)
			}
			if ref, ok := in["ref"].(string); ok {
				tmp, err := os.MkdirTemp("", "c18")
				if err == nil {
					defer os.RemoveAll(tmp)
					os.MkdirAll(filepath.Join(tmp, "root", "sub"), 0o755)
					os.WriteFile(filepath.Join(tmp, "secret.txt"), []byte("TOPSECRET"), 0o644)
					from, _ := in["from"].(string)
					checkDirFS(c, tmp, Unhx(ref), from)
				}
			}
			return
		}
		for i := 0; i < 40; i++ {
			checkCase(c, genShaped(c.Rng, i))
		}
		for i := 0; i < c.N; i++ {
			size := 2 + i%12
			if i%10 == 9 {
				size = 20 + c.Rng.Intn(40)
			}
			checkCase(c, genCase(c.Rng, size, i%7 == 0))
		}
		// real directory, references that try to leave it
		tmp, err := os.MkdirTemp("", "c18")
		if err != nil {
			return
		}
		defer os.RemoveAll(tmp)
		os.MkdirAll(filepath.Join(tmp, "root", "sub"), 0o755)
		os.WriteFile(filepath.Join(tmp, "secret.txt"), []byte("TOPSECRET"), 0o644)
		os.WriteFile(filepath.Join(tmp, "root", "ok.txt"), []byte("fine"), 0o644)
		for _, ref := range escapingRefs {
			checkDirFS(c, tmp, ref, "index.txt")
			checkDirFS(c, tmp, ref, "sub/index.txt")
		}
		for i := 0; i < c.N/20; i++ {
			checkDirFS(c, tmp, strings.Repeat("../", c.Rng.Intn(4))+randPath(c.Rng)+"secret.txt", []string{"index.txt", "sub/index.txt"}[i%2])
		}
	})
}
