package main

import (
	"bytes"
	"encoding/json"
	"fmt"
	"math/rand"
	"sort"
	"strconv"
	"strings"
	"testing/fstest"
	. "verif/harness/hlib"

	"github.com/open2b/scriggo"
	"github.com/open2b/scriggo/native"
)

// ---- description of a generated template set (C17) ----

// vnode is a node of a generated body.
//
//	show   {{ v }}|            reference site that prints
//	set    {% v = lit %}       reference site that assigns
//	read   {% _ = v %}         reference site without output (in func literals: _ = v)
//	loc    {% _ = locN %}      reference to a local variable of the enclosing file body
//	macro  {% macro Name %}..{% end %}   declaration (a literal inside a body)
//	func   {% var Name = func() string { ...; return "" } %}
//	call   {{ Name() }}        call of a macro or of a func literal
//	render {{ render "file" }}
type vnode struct {
	Kind string   `json:"k"`
	Site int      `json:"s,omitempty"`
	Var  string   `json:"v,omitempty"`
	Text string   `json:"t,omitempty"` // value assigned (its text)
	Name string   `json:"n,omitempty"`
	Body []*vnode `json:"b,omitempty"`
}

type vdecl struct {
	Name     string `json:"name"`
	Type     int    `json:"type"` // 0 string, 1 int, 2 bool
	HasValue bool   `json:"hasvalue"`
	Addr     int    `json:"addr"` // address of the Go variable of the declaration (HasValue)
	Init     string `json:"init"` // its initial text
}

// vrun is the entry of a variable in Run's vars.
//
//	val: a value (Type, Text); ptr: a pointer to a caller variable (Addr, initial Text);
//	nilptr: a nil pointer of Type; nil: untyped nil
type vrun struct {
	Name string `json:"name"`
	Kind string `json:"kind"`
	Type int    `json:"type"`
	Text string `json:"text"`
	Addr int    `json:"addr"`
}

type vfile struct {
	Name   string   `json:"name"`
	Role   string   `json:"role"` // body (main, layout, rendered) or decls (imported, extending)
	Head   string   `json:"head"` // extends/import statements
	Locals int      `json:"locals"`
	Body   []*vnode `json:"body"`
}

type vcase struct {
	Decls []vdecl  `json:"decls"`
	Files []*vfile `json:"files"`
	Main  string   `json:"main"` // name of the file whose body runs first (index or its layout)
	Run   []vrun   `json:"run"`
	Perm  []int    `json:"perm"` // order in which the package-level functions are given to the model
}

var typeNames = []string{"string", "int", "bool"}
var zeroTexts = []string{"", "0", "false"}

func litOf(typ int, text string) string {
	if typ == 0 {
		return strconv.Quote(text)
	}
	return text
}

// ---- rendering of sources ----

func renderNodes(b *strings.Builder, nodes []*vnode, decls map[string]vdecl, inFunc bool) {
	for _, n := range nodes {
		switch n.Kind {
		case "show":
			fmt.Fprintf(b, "{{ %s }}|", n.Var)
		case "set":
			if inFunc {
				fmt.Fprintf(b, "%s = %s; ", n.Var, litOf(decls[n.Var].Type, n.Text))
			} else {
				fmt.Fprintf(b, "{%% %s = %s %%}", n.Var, litOf(decls[n.Var].Type, n.Text))
			}
		case "read", "loc":
			name := n.Var
			if n.Kind == "loc" {
				name = n.Name
			}
			if inFunc {
				fmt.Fprintf(b, "_ = %s; ", name)
			} else {
				fmt.Fprintf(b, "{%% _ = %s %%}", name)
			}
		case "macro":
			fmt.Fprintf(b, "{%% macro %s %%}", n.Name)
			renderNodes(b, n.Body, decls, false)
			b.WriteString("{% end %}")
		case "func":
			fmt.Fprintf(b, "{%% var %s = func() string { ", n.Name)
			renderNodes(b, n.Body, decls, true)
			b.WriteString("return \"\" } %}")
		case "call":
			fmt.Fprintf(b, "{{ %s() }}", n.Name)
		case "render":
			fmt.Fprintf(b, "{{ render %q }}", n.Name)
		}
	}
}

func (vc *vcase) sources() map[string]string {
	decls := map[string]vdecl{}
	for _, d := range vc.Decls {
		decls[d.Name] = d
	}
	out := map[string]string{}
	for _, f := range vc.Files {
		var b strings.Builder
		b.WriteString(f.Head)
		for i := 0; i < f.Locals; i++ {
			fmt.Fprintf(&b, "{%% var %s_loc%d = \"L\" %%}", strings.TrimSuffix(f.Name, ".txt"), i)
		}
		renderNodes(&b, f.Body, decls, false)
		out[f.Name] = b.String()
	}
	return out
}

// ---- the abstract program given to the model ----

// upvars of a literal: the globals and locals referenced inside it, in the
// order of the first reference (what the type checker appends to Func.Upvars).
func upvarsOf(body []*vnode) []string {
	var ups []string
	seen := map[string]bool{}
	var walk func(ns []*vnode)
	walk = func(ns []*vnode) {
		for _, n := range ns {
			switch n.Kind {
			case "show", "set", "read":
				if !seen["n:"+n.Var] {
					seen["n:"+n.Var] = true
					ups = append(ups, "n:"+n.Var)
				}
			case "loc":
				if !seen["o:"+n.Name] {
					seen["o:"+n.Name] = true
					ups = append(ups, "o")
				}
			case "macro", "func":
				walk(n.Body)
			}
		}
	}
	walk(body)
	return ups
}

func encodeItems(nodes []*vnode) []string {
	var toks []string
	count := 0
	var items []string
	for _, n := range nodes {
		switch n.Kind {
		case "show", "set", "read":
			items = append(items, "r", strconv.Itoa(n.Site), n.Var)
			count++
		case "macro", "func":
			ups := upvarsOf(n.Body)
			items = append(items, "l", strconv.Itoa(len(ups)))
			items = append(items, ups...)
			items = append(items, encodeItems(n.Body)...)
			count++
		}
	}
	toks = append(toks, strconv.Itoa(count))
	toks = append(toks, items...)
	return toks
}

// tops returns the package-level functions: the body of the main file and
// of every file rendered (directly or not) from it, and every macro of the
// declarations files (the imported file, the extending file), called or not.
func (vc *vcase) tops() [][]*vnode {
	files := map[string]*vfile{}
	for _, f := range vc.Files {
		files[f.Name] = f
	}
	rendered := map[string]bool{vc.Main: true}
	var visit func(ns []*vnode)
	visit = func(ns []*vnode) {
		for _, n := range ns {
			switch n.Kind {
			case "macro", "func":
				visit(n.Body)
			case "render":
				if !rendered[n.Name] {
					rendered[n.Name] = true
					visit(files[n.Name].Body)
				}
			}
		}
	}
	visit(files[vc.Main].Body)
	var tops [][]*vnode
	for _, f := range vc.Files {
		if f.Role == "body" {
			if rendered[f.Name] {
				tops = append(tops, f.Body)
			}
		} else {
			for _, n := range f.Body {
				if n.Kind == "macro" {
					tops = append(tops, n.Body)
				}
			}
		}
	}
	return tops
}

func (vc *vcase) encodeTops() string {
	tops := vc.tops()
	toks := []string{strconv.Itoa(len(tops))}
	for _, i := range vc.Perm {
		toks = append(toks, encodeItems(tops[i])...)
	}
	return strings.Join(toks, " ")
}

// events walks the execution from the main body.
func (vc *vcase) events() []string {
	files := map[string]*vfile{}
	callables := map[string]*vnode{}
	var index func(ns []*vnode)
	index = func(ns []*vnode) {
		for _, n := range ns {
			if n.Kind == "macro" || n.Kind == "func" {
				callables[n.Name] = n
				index(n.Body)
			}
		}
	}
	for _, f := range vc.Files {
		files[f.Name] = f
		index(f.Body)
	}
	var evs []string
	var walk func(ns []*vnode)
	walk = func(ns []*vnode) {
		for _, n := range ns {
			switch n.Kind {
			case "show":
				evs = append(evs, "s"+strconv.Itoa(n.Site))
			case "set":
				evs = append(evs, "w"+strconv.Itoa(n.Site)+":"+Hx(n.Text))
			case "call":
				walk(callables[n.Name].Body)
			case "render":
				walk(files[n.Name].Body)
			}
		}
	}
	walk(files[vc.Main].Body)
	return evs
}

func (vc *vcase) encodeDecls() string {
	var parts []string
	for _, d := range vc.Decls {
		addr := "-"
		if d.HasValue {
			addr = strconv.Itoa(d.Addr)
		}
		parts = append(parts, d.Name+":"+strconv.Itoa(d.Type)+":"+Hx(zeroTexts[d.Type])+":"+addr)
	}
	return strings.Join(parts, "|")
}

func (vc *vcase) encodeRun() (vars, mem string) {
	var vs, ms []string
	for _, d := range vc.Decls {
		if d.HasValue {
			ms = append(ms, strconv.Itoa(d.Addr)+":"+Hx(d.Init))
		}
	}
	for _, r := range vc.Run {
		switch r.Kind {
		case "val":
			vs = append(vs, r.Name+"=V"+strconv.Itoa(r.Type)+":"+Hx(r.Text))
		case "ptr":
			vs = append(vs, r.Name+"=P"+strconv.Itoa(r.Type)+":"+strconv.Itoa(r.Addr))
			ms = append(ms, strconv.Itoa(r.Addr)+":"+Hx(r.Text))
		case "nilptr":
			vs = append(vs, r.Name+"=Q"+strconv.Itoa(r.Type))
		case "nil":
			vs = append(vs, r.Name+"=N")
		}
	}
	return strings.Join(vs, "|"), strings.Join(ms, ",")
}

// ---- running the real implementation ----

func newVar(typ int, text string) any {
	switch typ {
	case 0:
		s := text
		return &s
	case 1:
		n, _ := strconv.Atoi(text)
		return &n
	default:
		b := text == "true"
		return &b
	}
}

func nilPtr(typ int) any {
	switch typ {
	case 0:
		return (*string)(nil)
	case 1:
		return (*int)(nil)
	default:
		return (*bool)(nil)
	}
}

func derefText(p any) string {
	switch p := p.(type) {
	case *string:
		return *p
	case *int:
		return strconv.Itoa(*p)
	case *bool:
		return strconv.FormatBool(*p)
	}
	return "?"
}

func valueOf(typ int, text string) any {
	switch typ {
	case 0:
		return text
	case 1:
		n, _ := strconv.Atoi(text)
		return n
	default:
		return text == "true"
	}
}

type varsResult struct {
	line     string // canonical result
	out      string
	used     []string
	globals  []scriggo.VerifGlobal
	buildErr error
	mem      map[int]string
	panicMsg string
}

func panicClass(msg string) string {
	name := ""
	if i := strings.IndexByte(msg, '"'); i >= 0 {
		if j := strings.IndexByte(msg[i+1:], '"'); j >= 0 {
			name = msg[i+1 : i+1+j]
		}
	}
	switch {
	case strings.Contains(msg, "already initialized"):
		return "already:" + name
	case strings.Contains(msg, "cannot be nil"):
		return "nil:" + name
	case strings.Contains(msg, "must have type"):
		return "wrongtype:" + name
	case strings.Contains(msg, "cannot be a nil pointer"):
		return "nilptr:" + name
	}
	return "other:" + msg
}

func (vc *vcase) run() varsResult {
	var res varsResult
	m := fstest.MapFS{}
	for k, v := range vc.sources() {
		m[k] = &fstest.MapFile{Data: []byte(v)}
	}
	mem := map[int]any{}
	globals := native.Declarations{}
	for _, d := range vc.Decls {
		if d.HasValue {
			p := newVar(d.Type, d.Init)
			mem[d.Addr] = p
			globals[d.Name] = p
		} else {
			globals[d.Name] = nilPtr(d.Type)
		}
	}
	vars := map[string]any{}
	for _, r := range vc.Run {
		switch r.Kind {
		case "val":
			vars[r.Name] = valueOf(r.Type, r.Text)
		case "ptr":
			p := newVar(r.Type, r.Text)
			mem[r.Addr] = p
			vars[r.Name] = p
		case "nilptr":
			vars[r.Name] = nilPtr(r.Type)
		case "nil":
			vars[r.Name] = nil
		}
	}
	t, err := scriggo.BuildTemplate(m, "index.txt", &scriggo.BuildOptions{Globals: globals})
	if err != nil {
		res.buildErr = err
		res.line = "builderror"
		return res
	}
	res.globals = scriggo.VerifGlobals(t)
	res.used = t.UsedVars()
	var gl []string
	for _, g := range res.globals {
		gl = append(gl, g.Pkg+"."+g.Name)
	}
	sort.Strings(gl)
	head := "globals=" + strings.Join(gl, ",") + ";used=" + strings.Join(res.used, ",")
	var out bytes.Buffer
	var runErr error
	res.panicMsg = PanicText(func() { runErr = t.Run(&out, vars, nil) })
	if res.panicMsg != "" {
		res.line = head + ";panic=" + panicClass(res.panicMsg)
		return res
	}
	if runErr != nil {
		res.line = head + ";runerror=" + runErr.Error()
		return res
	}
	res.out = out.String()
	res.mem = map[int]string{}
	var addrs []int
	for a, p := range mem {
		res.mem[a] = derefText(p)
		addrs = append(addrs, a)
	}
	sort.Ints(addrs)
	var ms []string
	for _, a := range addrs {
		ms = append(ms, strconv.Itoa(a)+":"+Hx(res.mem[a]))
	}
	res.line = head + ";out=" + Hx(res.out) + ";mem=" + strings.Join(ms, ",")
	return res
}

// ---- generator ----

type vgen struct {
	r      *rand.Rand
	decls  []vdecl
	site   int
	fnames int
}

var setTexts = [][]string{{"A", "B", "C", "xyz", ""}, {"1", "7", "42", "0"}, {"true", "false"}}

func (g *vgen) refNode(inFunc bool) *vnode {
	d := g.decls[g.r.Intn(len(g.decls))]
	g.site++
	switch x := g.r.Intn(10); {
	case x < 3:
		ts := setTexts[d.Type]
		return &vnode{Kind: "set", Site: g.site, Var: d.Name, Text: ts[g.r.Intn(len(ts))]}
	case inFunc || x == 3:
		return &vnode{Kind: "read", Site: g.site, Var: d.Name}
	}
	return &vnode{Kind: "show", Site: g.site, Var: d.Name}
}

// body generates the nodes of a body. callable are the names that can be
// called here, locals the local variables that can be referenced, renders
// the files that can be rendered. depth limits the nesting of literals.
func (g *vgen) body(n int, callable []string, locals []string, renders []string, depth int, inFunc bool, prefix string) []*vnode {
	var out []*vnode
	callable = append([]string{}, callable...)
	for i := 0; i < n; i++ {
		switch x := g.r.Intn(20); {
		case x < 9:
			out = append(out, g.refNode(inFunc))
		case x < 11 && len(locals) > 0 && depth > 0:
			out = append(out, &vnode{Kind: "loc", Name: locals[g.r.Intn(len(locals))]})
		case x < 14 && depth < 3 && !inFunc:
			g.fnames++
			name := fmt.Sprintf("%sM%d", prefix, g.fnames)
			m := &vnode{Kind: "macro", Name: name}
			m.Body = g.body(1+g.r.Intn(4), callable, locals, nil, depth+1, false, prefix)
			out = append(out, m)
			callable = append(callable, name)
		case x < 15 && depth < 3 && !inFunc:
			g.fnames++
			name := fmt.Sprintf("%sf%d", strings.ToLower(prefix), g.fnames)
			m := &vnode{Kind: "func", Name: name}
			m.Body = g.body(1+g.r.Intn(3), nil, locals, nil, depth+1, true, prefix)
			out = append(out, m)
			callable = append(callable, name)
		case x < 18 && len(callable) > 0 && !inFunc:
			out = append(out, &vnode{Kind: "call", Name: callable[g.r.Intn(len(callable))]})
		case x < 20 && len(renders) > 0 && depth == 0:
			out = append(out, &vnode{Kind: "render", Name: renders[g.r.Intn(len(renders))]})
		default:
			out = append(out, g.refNode(inFunc))
		}
	}
	return out
}

func genVars(r *rand.Rand) *vcase {
	g := &vgen{r: r}
	vc := &vcase{}
	nd := 1 + r.Intn(4)
	addr := 1
	for i := 0; i < nd; i++ {
		d := vdecl{Name: fmt.Sprintf("v%d", i), Type: r.Intn(3)}
		if r.Intn(4) == 0 {
			d.HasValue = true
			d.Addr = addr
			addr++
			ts := setTexts[d.Type]
			d.Init = ts[r.Intn(len(ts))]
		}
		vc.Decls = append(vc.Decls, d)
	}
	g.decls = vc.Decls
	// imported file: macros that are package-level functions
	var imported []string
	head := ""
	if r.Intn(3) > 0 {
		f := &vfile{Name: "imp.txt", Role: "decls"}
		for i := 1 + r.Intn(3); i > 0; i-- {
			g.fnames++
			name := fmt.Sprintf("Imp%d", g.fnames)
			m := &vnode{Kind: "macro", Name: name}
			m.Body = g.body(1+r.Intn(4), imported, nil, nil, 1, false, "I")
			f.Body = append(f.Body, m)
			imported = append(imported, name)
		}
		vc.Files = append(vc.Files, f)
		head = "{% import \"imp.txt\" %}"
	}
	// rendered files, the later ones first so that a file renders only files generated before it
	var rendered []string
	for i := r.Intn(3); i > 0; i-- {
		name := fmt.Sprintf("r%d.txt", i)
		f := &vfile{Name: name, Role: "body", Head: head, Locals: r.Intn(2)}
		var locals []string
		for k := 0; k < f.Locals; k++ {
			locals = append(locals, fmt.Sprintf("r%d_loc%d", i, k))
		}
		f.Body = g.body(1+r.Intn(5), imported, locals, rendered, 0, false, fmt.Sprintf("R%d", i))
		vc.Files = append(vc.Files, f)
		rendered = append(rendered, name)
	}
	if r.Intn(3) == 0 {
		// index extends a layout: the macros of index are package-level functions
		idx := &vfile{Name: "index.txt", Role: "decls", Head: "{% extends \"layout.txt\" %}" + head}
		var bodyMacros []string
		for i := 1 + r.Intn(2); i > 0; i-- {
			g.fnames++
			name := fmt.Sprintf("Body%d", g.fnames)
			m := &vnode{Kind: "macro", Name: name}
			m.Body = g.body(1+r.Intn(4), append(append([]string{}, imported...), bodyMacros...), nil, nil, 1, false, "X")
			idx.Body = append(idx.Body, m)
			bodyMacros = append(bodyMacros, name)
		}
		lay := &vfile{Name: "layout.txt", Role: "body", Head: head, Locals: r.Intn(2)}
		var locals []string
		for k := 0; k < lay.Locals; k++ {
			locals = append(locals, fmt.Sprintf("layout_loc%d", k))
		}
		lay.Body = g.body(2+r.Intn(6), append(append([]string{}, imported...), bodyMacros...), locals, rendered, 0, false, "L")
		vc.Files = append(vc.Files, idx, lay)
		vc.Main = "layout.txt"
	} else {
		idx := &vfile{Name: "index.txt", Role: "body", Head: head, Locals: r.Intn(3)}
		var locals []string
		for k := 0; k < idx.Locals; k++ {
			locals = append(locals, fmt.Sprintf("index_loc%d", k))
		}
		idx.Body = g.body(2+r.Intn(8), imported, locals, rendered, 0, false, "X")
		vc.Files = append(vc.Files, idx)
		vc.Main = "index.txt"
	}
	// Run's vars
	bad := r.Intn(12) == 0
	for _, d := range vc.Decls {
		if d.HasValue {
			if bad && r.Intn(2) == 0 {
				vc.Run = append(vc.Run, vrun{Name: d.Name, Kind: "val", Type: d.Type, Text: setTexts[d.Type][0]})
				bad = false
			}
			continue
		}
		ts := setTexts[d.Type]
		switch x := r.Intn(10); {
		case x < 3:
			// not supplied: zero value
		case x < 6:
			vc.Run = append(vc.Run, vrun{Name: d.Name, Kind: "val", Type: d.Type, Text: ts[r.Intn(len(ts))]})
		case x < 9 || !bad:
			vc.Run = append(vc.Run, vrun{Name: d.Name, Kind: "ptr", Type: d.Type, Text: ts[r.Intn(len(ts))], Addr: addr})
			addr++
		default:
			bad = false
			switch r.Intn(4) {
			case 0:
				vc.Run = append(vc.Run, vrun{Name: d.Name, Kind: "nil"})
			case 1:
				vc.Run = append(vc.Run, vrun{Name: d.Name, Kind: "nilptr", Type: d.Type})
			case 2:
				vc.Run = append(vc.Run, vrun{Name: d.Name, Kind: "val", Type: (d.Type + 1) % 3, Text: setTexts[(d.Type+1)%3][0]})
			default:
				vc.Run = append(vc.Run, vrun{Name: d.Name, Kind: "ptr", Type: (d.Type + 1) % 3, Text: setTexts[(d.Type+1)%3][0], Addr: addr})
				addr++
			}
		}
	}
	vc.Perm = r.Perm(len(vc.tops()))
	return vc
}

// the template of the defect repaired by commit 4da4282
func fixedCase() *vcase {
	return &vcase{
		Decls: []vdecl{{Name: "s", Type: 0}},
		Files: []*vfile{{Name: "index.txt", Role: "body", Body: []*vnode{
			{Kind: "macro", Name: "M", Body: []*vnode{{Kind: "show", Site: 1, Var: "s"}}},
			{Kind: "call", Name: "M"},
			{Kind: "show", Site: 2, Var: "s"},
		}}},
		Main: "index.txt",
		Run:  []vrun{{Name: "s", Kind: "val", Type: 0, Text: "X"}},
		Perm: []int{0},
	}
}

// a global assigned in one file and read in a rendered file and in an imported macro
func sharedCase() *vcase {
	return &vcase{
		Decls: []vdecl{{Name: "s", Type: 0}},
		Files: []*vfile{
			{Name: "imp.txt", Role: "decls", Body: []*vnode{{Kind: "macro", Name: "I", Body: []*vnode{{Kind: "show", Site: 1, Var: "s"}}}}},
			{Name: "r.txt", Role: "body", Body: []*vnode{{Kind: "show", Site: 2, Var: "s"}, {Kind: "set", Site: 3, Var: "s", Text: "R"}}},
			{Name: "index.txt", Role: "body", Head: "{% import \"imp.txt\" %}", Body: []*vnode{
				{Kind: "show", Site: 4, Var: "s"}, {Kind: "set", Site: 5, Var: "s", Text: "Y"},
				{Kind: "render", Name: "r.txt"}, {Kind: "call", Name: "I"}, {Kind: "show", Site: 6, Var: "s"}}},
		},
		Main: "index.txt",
		Run:  []vrun{{Name: "s", Kind: "val", Type: 0, Text: "X"}},
		Perm: []int{2, 0, 1},
	}
}

func varsCaseFromReplay(in map[string]any) *vcase {
	b, _ := json.Marshal(in["case"])
	vc := &vcase{}
	if json.Unmarshal(b, vc) != nil || vc.Files == nil {
		return nil
	}
	return vc
}

func varsCases(c *Ctx, f func(vc *vcase)) {
	if in := c.ReplayInput(); in != nil {
		if vc := varsCaseFromReplay(in); vc != nil {
			f(vc)
		}
		return
	}
	f(fixedCase())
	f(sharedCase())
	for i := 0; i < c.N; i++ {
		f(genVars(c.Rng))
	}
}

func init() {
	// correspondence: globals table, UsedVars, rendered output and caller
	// memory of the real template against the model
	Register("C17-cases", func(c *Ctx) {
		if c.ReplayInput() != nil {
			return
		}
		varsCases(c, func(vc *vcase) {
			res := vc.run()
			vars, mem := vc.encodeRun()
			c.Line("vars", vc.encodeDecls(), vc.encodeTops(), vars, mem, strings.Join(vc.events(), ","), res.line)
			c.Count("cases")
			if res.buildErr != nil {
				c.Count("build-errors")
			}
		})
	})
}

func init() {
	// debugging aid: print the sources of the generated cases whose number is given with -arg
	Register("C17-show", func(c *Ctx) {
		want, _ := strconv.Atoi(c.Arg)
		i := 0
		c.Arg = ""
		varsCases(c, func(vc *vcase) {
			if i == want {
				for name, src := range vc.sources() {
					fmt.Fprintf(c.Out, "--- %s\n%s\n", name, src)
				}
				fmt.Fprintf(c.Out, "tops: %s\nresult: %s\n", vc.encodeTops(), vc.run().line)
			}
			i++
		})
	})
}

// ---- sweep: the property on the real code against an independent oracle ----

// oracleRun interprets the case with one variable per declared name: a value
// of Run's vars is copied into it, a pointer makes it an alias of the caller's
// variable, a declaration with a value is the Go variable of the declaration.
func (vc *vcase) oracleRun() (out string, mem map[int]string, panicClass string, used []string) {
	type cell struct {
		addr int // > 0: shared
		text string
	}
	mem = map[int]string{}
	decl := map[string]vdecl{}
	for _, d := range vc.Decls {
		decl[d.Name] = d
		if d.HasValue {
			mem[d.Addr] = d.Init
		}
	}
	run := map[string]vrun{}
	for _, r := range vc.Run {
		run[r.Name] = r
		if r.Kind == "ptr" {
			mem[r.Addr] = r.Text
		}
	}
	// the variables referenced by the files that belong to the template
	usedSet := map[string]bool{}
	var collect func(ns []*vnode)
	collect = func(ns []*vnode) {
		for _, n := range ns {
			switch n.Kind {
			case "show", "set", "read":
				usedSet[n.Var] = true
			case "macro", "func":
				collect(n.Body)
			}
		}
	}
	for _, t := range vc.tops() {
		collect(t)
	}
	for v := range usedSet {
		used = append(used, v)
	}
	sort.Strings(used)
	cells := map[string]*cell{}
	for _, v := range used {
		d := decl[v]
		r, supplied := run[v]
		switch {
		case supplied && d.HasValue:
			return "", nil, "already:" + v, used
		case supplied && r.Kind == "nil":
			return "", nil, "nil:" + v, used
		case supplied && r.Type != d.Type:
			return "", nil, "wrongtype:" + v, used
		case supplied && r.Kind == "nilptr":
			return "", nil, "nilptr:" + v, used
		case supplied && r.Kind == "ptr":
			cells[v] = &cell{addr: r.Addr}
		case supplied:
			cells[v] = &cell{text: r.Text}
		case d.HasValue:
			cells[v] = &cell{addr: d.Addr}
		default:
			cells[v] = &cell{text: zeroTexts[d.Type]}
		}
	}
	files := map[string]*vfile{}
	callables := map[string]*vnode{}
	var index func(ns []*vnode)
	index = func(ns []*vnode) {
		for _, n := range ns {
			if n.Kind == "macro" || n.Kind == "func" {
				callables[n.Name] = n
				index(n.Body)
			}
		}
	}
	for _, f := range vc.Files {
		files[f.Name] = f
		index(f.Body)
	}
	var b strings.Builder
	var walk func(ns []*vnode)
	walk = func(ns []*vnode) {
		for _, n := range ns {
			switch n.Kind {
			case "show":
				c := cells[n.Var]
				if c.addr > 0 {
					b.WriteString(mem[c.addr])
				} else {
					b.WriteString(c.text)
				}
				b.WriteString("|")
			case "set":
				c := cells[n.Var]
				if c.addr > 0 {
					mem[c.addr] = n.Text
				} else {
					c.text = n.Text
				}
			case "call":
				walk(callables[n.Name].Body)
			case "render":
				walk(files[n.Name].Body)
			}
		}
	}
	walk(files[vc.Main].Body)
	return b.String(), mem, "", used
}

func init() {
	Register("C17-sweep", func(c *Ctx) {
		if in := c.ReplayInput(); in == nil || in["otherpkg"] != nil {
			x := "X"
			checkOtherPackage(c, "X", "X|P|P|X|P|W|")
			checkOtherPackage(c, nil, "|P|P||P|W|")
			checkOtherPackage(c, &x, "X|P|P|X|P|W|")
			if in != nil {
				return
			}
		}
		varsCases(c, func(vc *vcase) {
			c.Count("evaluations")
			res := vc.run()
			detail := func(why string) map[string]any {
				return map[string]any{"case": vc, "sources": vc.sources(), "why": why, "got": res.line}
			}
			if res.buildErr != nil {
				c.Fail("generated-template-does-not-build", detail(res.buildErr.Error()))
				return
			}
			wantOut, wantMem, wantPanic, used := vc.oracleRun()
			// UsedVars: the referenced names, each once
			if strings.Join(res.used, ",") != strings.Join(used, ",") {
				c.Fail("usedvars-differ", detail("UsedVars = "+strings.Join(res.used, ",")+", referenced = "+strings.Join(used, ",")))
				return
			}
			// every global is bound by package main and its name, once
			seen := map[string]bool{}
			for _, g := range res.globals {
				if g.Pkg != "main" {
					c.Fail("global-not-in-main", detail("global "+g.Pkg+"."+g.Name))
					return
				}
				if seen[g.Name] {
					c.Fail("global-duplicated", detail("global "+g.Name+" has two entries"))
					return
				}
				seen[g.Name] = true
			}
			if wantPanic != "" || res.panicMsg != "" {
				if got := panicClass(res.panicMsg); res.panicMsg == "" || got != wantPanic {
					// with several invalid initializers any of them may be reported
					if res.panicMsg == "" || wantPanic == "" || strings.SplitN(got, ":", 2)[0] == "other" {
						c.Fail("run-panic-differs", detail("want "+wantPanic+", got "+res.panicMsg))
					}
				}
				c.Count("panics")
				return
			}
			if strings.HasPrefix(res.line, "globals=") && strings.Contains(res.line, ";runerror=") {
				c.Fail("run-error", detail(res.line))
				return
			}
			if res.out != wantOut {
				c.Fail("reference-sees-other-value", detail("output "+strconv.Quote(res.out)+", expected "+strconv.Quote(wantOut)))
				return
			}
			for a, t := range wantMem {
				if res.mem[a] != t {
					c.Fail("caller-variable-differs", detail(fmt.Sprintf("variable at address %d is %q, expected %q", a, res.mem[a], t)))
					return
				}
			}
			if len(vc.events()) > 0 && len(used) > 0 {
				c.Count("nontrivial")
			}
			if len(vc.Files) > 1 {
				c.Count("multi-file")
			}
			if len(c.Samples) < 3 && len(vc.Files) > 2 {
				c.Sample(map[string]any{"sources": vc.sources(), "out": res.out, "used": res.used})
			}
		})
	})
}

// A variable of an imported native package with the name of a global given to
// Run: Run binds only the variables of package main.
func checkOtherPackage(c *Ctx, val any, wantOut string) {
	c.Count("evaluations")
	pv := "P"
	m := fstest.MapFS{"index.txt": &fstest.MapFile{Data: []byte(
		`{% import "pkg" %}{{ V0 }}|{{ pkg.V0 }}|{% macro M %}{{ pkg.V0 }}|{{ V0 }}|{% end %}{{ M() }}{% V0 = "W" %}{{ pkg.V0 }}|{{ V0 }}|`)}}
	opts := &scriggo.BuildOptions{
		Globals:  native.Declarations{"V0": (*string)(nil)},
		Packages: native.Packages{"pkg": native.Package{Name: "pkg", Declarations: native.Declarations{"V0": &pv}}},
	}
	detail := map[string]any{"otherpkg": true, "vars": fmt.Sprint(val)}
	t, err := scriggo.BuildTemplate(m, "index.txt", opts)
	if err != nil {
		detail["error"] = err.Error()
		c.Fail("generated-template-does-not-build", detail)
		return
	}
	var out bytes.Buffer
	var runErr error
	vars := map[string]any{}
	if val != nil {
		vars["V0"] = val
	}
	msg := PanicText(func() { runErr = t.Run(&out, vars, nil) })
	detail["out"] = out.String()
	detail["panic"] = msg
	if msg != "" || runErr != nil {
		c.Fail("variable-of-other-package-bound", detail)
		return
	}
	if out.String() != wantOut || pv != "P" {
		detail["want"] = wantOut
		detail["pkg.V0"] = pv
		c.Fail("reference-sees-other-value", detail)
		return
	}
	for _, g := range scriggo.VerifGlobals(t) {
		if g.Name == "V0" && g.Pkg != "main" && g.Pkg != "pkg" {
			c.Fail("global-not-in-main", detail)
		}
	}
	c.Count("nontrivial")
}
