package main

import (
	"fmt"
	"html"
	"strings"
	. "verif/harness/hlib"

	"github.com/open2b/scriggo"
	"github.com/open2b/scriggo/builtin"
)

func htmlEscapeResult(s string) string {
	return Protect(func() string { return "ok:" + Hx(string(scriggo.HTMLEscape(s))) })
}

func htmlEscapeInputs(c *Ctx, f func(s string)) {
	if in := c.ReplayInput(); in != nil {
		if h, ok := in["in"].(string); ok {
			f(Unhx(h))
		}
		return
	}
	alpha := []byte{'<', '>', '&', '"', '\'', 'a', 0xC3}
	maxLen := 5
	if c.Thorough() {
		maxLen = 7
	}
	EnumStrings(alpha, maxLen, f)
	DictTimesSuccessors(f)
	for i := 0; i < c.N; i++ {
		f(RandString(c.Rng, 40))
	}
}

func main() { Main() }

func init() {
	// correspondence: scriggo.HTMLEscape vs the Coq model HTMLEscape
	Register("C24-cases", func(c *Ctx) {
		htmlEscapeInputs(c, func(s string) {
			c.Line("HTMLEscape", Hx(s), htmlEscapeResult(s))
			c.Count("cases")
		})
	})
	// sweep: the property itself on the real code, with Go's html.UnescapeString as decoder
	Register("C24-sweep", func(c *Ctx) {
		seen := 0
		// results are kept and compared again at the end: a returned value must not change when
		// HTMLEscape is called again (e.g. through a shared buffer)
		type kept struct{ in, out string }
		var keep []kept
		htmlEscapeInputs(c, func(s string) {
			c.Count("evaluations")
			var out, out2 string
			if msg := PanicText(func() { out = string(scriggo.HTMLEscape(s)); out2 = string(builtin.HtmlEscape(s)) }); msg != "" {
				c.Fail("panic", map[string]string{"fn": "HTMLEscape", "in": Hx(s), "panic": msg})
				return
			}
			if why := checkFiveEntities(s, out); why != "" {
				c.Fail("not-five-entities", map[string]string{"fn": "HTMLEscape", "in": Hx(s), "out": Hx(out), "why": why})
				return
			}
			if out2 != out {
				c.Fail("builtin-differs", map[string]string{"fn": "builtin.HtmlEscape", "in": Hx(s), "out": Hx(out2), "want": Hx(out)})
				return
			}
			if html.UnescapeString(out) != s {
				c.Fail("does-not-decode", map[string]string{"fn": "HTMLEscape", "in": Hx(s), "out": Hx(out), "decoded": Hx(html.UnescapeString(out))})
				return
			}
			if len(keep) < 200000 {
				keep = append(keep, kept{s, out})
			}
			if out != s {
				c.Count("nontrivial")
				if seen < 3 {
					seen++
					c.Sample(map[string]string{"in": s, "out": out})
				}
			}
		})
		for _, k := range keep {
			if why := checkFiveEntities(k.in, k.out); why != "" {
				c.Fail("result-changed-later", map[string]string{"fn": "HTMLEscape", "in": Hx(k.in), "out_now": Hx(k.out), "why": why})
				break
			}
		}
	})
}

// checkFiveEntities checks the property's statement directly: out is s with
// each of the five characters replaced by an entity that decodes to it, every
// other byte in place.
func checkFiveEntities(s, out string) string {
	j := 0
	for i := 0; i < len(s); i++ {
		switch c := s[i]; c {
		case '"', '\'', '&', '<', '>':
			if j >= len(out) || out[j] != '&' {
				return fmt.Sprintf("byte %d (%q) not replaced by an entity", i, c)
			}
			k := strings.IndexByte(out[j:], ';')
			if k < 0 || k > 9 {
				return fmt.Sprintf("byte %d: entity not terminated", i)
			}
			if html.UnescapeString(out[j:j+k+1]) != string(c) {
				return fmt.Sprintf("byte %d: %q does not decode to %q", i, out[j:j+k+1], c)
			}
			j += k + 1
		default:
			if j >= len(out) || out[j] != c {
				return fmt.Sprintf("byte %d (%#x) changed or missing", i, c)
			}
			j++
		}
	}
	if j != len(out) {
		return "trailing output"
	}
	return ""
}
