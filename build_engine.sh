#!/bin/bash
# usage: build_engine.sh <engine>   — extract coq/extract/Extract_<engine>.v and build bin/drv_<engine>
set -e
eng=$1
V=$(cd "$(dirname "$0")" && pwd)
B=$V/build/$eng
mkdir -p $B $V/bin
cd $B
cp $V/coq/extract/Extract_$eng.v .
coqc -Q $V/coq/lib Verif -Q $V/coq/gen Verif -Q $V/coq/model Verif -Q $V/coq/proofs Verif Extract_$eng.v > extract.log 2>&1 || { cat extract.log; exit 1; }
M=$(echo ${eng}_model | sed 's/^./\U&/')
sed "s/MODEL/$M/g" $V/ocaml/prelude.ml.in > drv.ml
cat $V/ocaml/drv_$eng.ml >> drv.ml
ocamlfind ocamlopt -O2 -w -a -package str ${eng}_model.mli ${eng}_model.ml drv.ml -o $V/bin/drv_$eng 2> ocaml.log || ocamlfind ocamlopt -w -a ${eng}_model.mli ${eng}_model.ml drv.ml -o $V/bin/drv_$eng 2> ocaml.log || { cat ocaml.log; exit 1; }
