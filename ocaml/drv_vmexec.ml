(* model driver for engine `vmexec`: the hook's dump of a built program is
   parsed into the extracted `program`, run by VmExecM.vm_exec, and the output
   trace is rendered as the text t.P prints. *)
let z_of_int (i : int) : z = if i = 0 then Z0 else if i > 0 then Zpos (pos_of_int i) else Zneg (pos_of_int (- i))
let ten = z_of_int 10
let z_of_dec (s : string) : z =
  let neg = String.length s > 0 && s.[0] = '-' in
  let start = if neg then 1 else 0 in
  let acc = ref Z0 in
  for i = start to String.length s - 1 do
    acc := Z.add (Z.mul !acc ten) (z_of_int (Char.code s.[i] - 48))
  done;
  if neg then Z.opp !acc else !acc
let rec int_of_z_small (x : z) : int = match x with Z0 -> 0 | Zpos p -> int_of_pos p | Zneg p -> - (int_of_pos p)
let dec_of_z (x : z) : string =
  if x = Z0 then "0" else begin
    let neg = Z.ltb x Z0 in
    let v = ref (if neg then Z.opp x else x) in
    let b = Buffer.create 24 in
    while !v <> Z0 do
      let (q, r) = Z.quotrem !v ten in
      Buffer.add_char b (Char.chr (48 + int_of_z_small r));
      v := q
    done;
    let s = Buffer.contents b in
    let n = String.length s in
    (if neg then "-" else "") ^ String.init n (fun i -> s.[n - 1 - i])
  end

(* strings of the model are lists of Z *)
let str_of_hex (h : string) : z list =
  let len = String.length h / 2 in
  let rec go i acc = if i < 0 then acc else go (i - 1) (z_of_int (hexdigit h.[2*i] * 16 + hexdigit h.[2*i+1]) :: acc) in
  go (len - 1) []
let hex_of_str (l : z list) : string =
  let b = Buffer.create 64 in
  List.iter (fun x -> Buffer.add_string b (Printf.sprintf "%02x" (int_of_z_small x))) l;
  Buffer.contents b

(* ---- token stream ---- *)
type toks = { a : string array; mutable pos : int }
let next t = let x = t.a.(t.pos) in t.pos <- t.pos + 1; x
let next_int t = int_of_string (next t)
let next_z t = z_of_dec (next t)
let next_hex t = let x = next t in str_of_hex (String.sub x 1 (String.length x - 1))
let rec times n f = if n <= 0 then [] else let x = f () in x :: times (n - 1) f

let kind_string = gen_x_kind_String

let parse_gval t : gval =
  let k = next_z t in
  let i = next_z t in
  let s = next_hex t in
  if k = Z0 then GInvalid
  else if Z.eqb k gen_kind_Bool then GBool (not (i = Z0))
  else if Z.eqb k kind_string then GStr s
  else (match kind_ity k with
        | Some ty -> GInt (k, wrap ty i)
        | None -> GInvalid)

let parse_func t : func =
  let f = next t in
  if f <> "F" then failwith "dump: F expected";
  let r0 = next_z t in let r1 = next_z t in let r2 = next_z t in let r3 = next_z t in
  let nb = next_int t in
  let body = times nb (fun () -> let o = next_z t in let a = next_z t in let b = next_z t in let c = next_z t in
                                  { i_op = o; i_a = a; i_b = b; i_c = c }) in
  let ni = next_int t in
  let ints = times ni (fun () -> next_z t) in
  let ns = next_int t in
  let strs = times ns (fun () -> next_hex t) in
  let ng = next_int t in
  let gens = times ng (fun () -> parse_gval t) in
  let _nfloats = next_int t in
  let nf = next_int t in
  let funcs = times nf (fun () -> next_z t) in
  let nn = next_int t in
  let nats = times nn (fun () ->
    let code = next_z t in let var = next_int t in let numin = next_z t in
    let o0 = next_z t in let o1 = next_z t in let o2 = next_z t in let o3 = next_z t in
    { n_code = code; n_variadic = (var = 1); n_numin = numin; n_outoff = (((o0, o1), o2), o3) }) in
  let nt = next_int t in
  let types = times nt (fun () -> next_z t) in
  let _nfinal = next_int t in let _varrefs = next_int t in let _macro = next_int t in
  { f_numreg = { q0 = r0; q1 = r1; q2 = r2; q3 = r3 }; f_body = body; f_ints = ints; f_strs = strs; f_gens = gens;
    f_funcs = funcs; f_natives = nats; f_types = types }

let parse_program (s : string) : program =
  let t = { a = Array.of_list (List.filter (fun x -> x <> "") (String.split_on_char ' ' s)); pos = 0 } in
  let n = next_int t in
  times n (fun () -> parse_func t)

(* ---- rendering ---- *)
let kind_names = [ (gen_kind_Int, "int"); (gen_kind_Int8, "int8"); (gen_kind_Int16, "int16"); (gen_kind_Int32, "int32");
  (gen_kind_Int64, "int64"); (gen_kind_Uint, "uint"); (gen_kind_Uint8, "uint8"); (gen_kind_Uint16, "uint16");
  (gen_kind_Uint32, "uint32"); (gen_kind_Uint64, "uint64"); (gen_kind_Uintptr, "uintptr") ]
let kind_name k = try snd (List.find (fun (x, _) -> Z.eqb x k) kind_names) with Not_found -> "kind" ^ dec_of_z k

let show_gval (v : gval) : string =
  match v with
  | GInvalid -> "other:<nil>"
  | GInt (k, x) -> kind_name k ^ ":" ^ dec_of_z x
  | GBool b -> "bool:" ^ bool_s b
  | GStr s -> "string:" ^ hex_of_str s

let show_trace (tr : gval list list) : string =
  String.concat "" (List.map (fun l -> String.concat " " (List.map show_gval l) ^ "|") tr)

let fault_name (f : fault) : string =
  match f with
  | FBadPc -> "bad-pc" | FBadFunc -> "bad-func" | FBadReg -> "bad-register" | FIndirect -> "indirect-register"
  | FBadConst -> "bad-constant" | FBadType -> "bad-type" | FUnsupported op -> "unsupported-op:" ^ dec_of_z op
  | FNative -> "native" | FTerm -> "term"

let show_outcome (o : outcome) : string =
  show_trace (out_of o) ^
  (match o with
   | ODone _ -> "ok"
   | OPanic (PDivide, _) -> "panic:divide"
   | OPanic (PIndex, _) -> "panic:index"
   | OFault (f, s) -> "fault:" ^ fault_name f ^ "@fn" ^ dec_of_z s.s_fn ^ "/pc" ^ dec_of_z s.s_pc ^ "/depth" ^ string_of_int (List.length s.s_calls)
   | OOutOfFuel _ -> "out-of-fuel")

let nat_tr (i : int) : nat = let rec go i acc = if i <= 0 then acc else go (i - 1) (S acc) in go i O

(* ---- MiniGo AST (the generator's token stream) ---- *)
let ikinds = [| KInt; KInt8; KInt16; KInt32; KInt64; KUint; KUint8; KUint16; KUint32; KUint64; KUintptr |]
let ikind_name = function
  | KInt -> "int" | KInt8 -> "int8" | KInt16 -> "int16" | KInt32 -> "int32" | KInt64 -> "int64"
  | KUint -> "uint" | KUint8 -> "uint8" | KUint16 -> "uint16" | KUint32 -> "uint32" | KUint64 -> "uint64" | KUintptr -> "uintptr"
let binop_of = function
  | "Add" -> Add | "Sub" -> Sub | "Mul" -> Mul | "Quo" -> Quo | "Rem" -> Rem | "And" -> And | "Or" -> Or
  | "Xor" -> Xor | "AndNot" -> AndNot | "Shl" -> Shl | "Shr" -> Shr | _ -> failwith "binop"
let cmpop_of = function
  | "Ceq" -> Ceq | "Cne" -> Cne | "Clt" -> Clt | "Cle" -> Cle | "Cgt" -> Cgt | "Cge" -> Cge | _ -> failwith "cmpop"

let rec parse_expr t : expr =
  match next t with
  | "c" -> let k = ikinds.(next_int t) in let v = next_z t in EConst (k, v)
  | "tb" -> EBool (next_int t = 1)
  | "ts" -> EStr (next_hex t)
  | "v" -> EVar (next_z t)
  | "b" -> let op = binop_of (next t) in let a = parse_expr t in let b = parse_expr t in EBin (op, a, b)
  | "u" -> let op = (match next t with "Neg" -> Neg | "Not" -> Not | _ -> failwith "unop") in EUn (op, parse_expr t)
  | "cmp" -> let c = cmpop_of (next t) in let a = parse_expr t in let b = parse_expr t in ECmp (c, a, b)
  | "not" -> ENot (parse_expr t)
  | "len" -> ELen (parse_expr t)
  | "and" -> let a = parse_expr t in let b = parse_expr t in EAnd (a, b)
  | "or" -> let a = parse_expr t in let b = parse_expr t in EOr (a, b)
  | "cat" -> let a = parse_expr t in let b = parse_expr t in ECat (a, b)
  | "idx" -> let a = parse_expr t in let b = parse_expr t in EIndex (a, b)
  | "conv" -> let k = ikinds.(next_int t) in EConv (k, parse_expr t)
  | "call" -> let f = next_z t in let n = next_int t in ECall (f, times n (fun () -> parse_expr t))
  | x -> failwith ("expr token " ^ x)

let rec parse_stmts t : stmt list = let n = next_int t in times n (fun () -> parse_stmt t)
and parse_stmt t : stmt =
  match next t with
  | "decl" -> let x = next_z t in SDecl (x, parse_expr t)
  | "set" -> let x = next_z t in SAssign (x, parse_expr t)
  | "opset" -> let x = next_z t in let op = binop_of (next t) in SOpAssign (x, op, parse_expr t)
  | "inc" -> SIncDec (next_z t, true)
  | "dec" -> SIncDec (next_z t, false)
  | "if" -> let c = parse_expr t in let a = parse_stmts t in let b = parse_stmts t in SIf (c, a, b)
  | "for" -> let c = parse_expr t in let a = parse_stmts t in let b = parse_stmts t in SFor (c, a, b)
  | "break" -> SBreak
  | "cont" -> SContinue
  | "ret0" -> SReturn None
  | "ret" -> SReturn (Some (parse_expr t))
  | "print" -> let n = next_int t in SPrint (times n (fun () -> parse_expr t))
  | "expr" -> SExpr (parse_expr t)
  | "block" -> SBlock (parse_stmts t)
  | x -> failwith ("stmt token " ^ x)

let parse_prog (s : string) : prog =
  let t = { a = Array.of_list (List.filter (fun x -> x <> "") (String.split_on_char ' ' s)); pos = 0 } in
  let n = next_int t in
  times n (fun () ->
    if next t <> "fn" then failwith "ast: fn expected";
    let np = next_int t in
    let ps = times np (fun () -> next_z t) in
    let res = next_int t = 1 in
    let body = parse_stmts t in
    { fd_params = ps; fd_result = res; fd_body = body })

let show_value (v : value) : string =
  match v with
  | VI (k, x) -> ikind_name k ^ ":" ^ dec_of_z x
  | VB b -> "bool:" ^ bool_s b
  | VS s -> "string:" ^ hex_of_str s
let show_mtrace (tr : value list list) : string =
  String.concat "" (List.map (fun l -> String.concat " " (List.map show_value l) ^ "|") tr)
let show_pres (r : pres) : string =
  match r with
  | PDone o -> show_mtrace o ^ "ok"
  | PPanicked (PanDivide, o) -> show_mtrace o ^ "panic:divide"
  | PPanicked (PanIndex, o) -> show_mtrace o ^ "panic:index"
  | PPanicked (PanShift, o) -> show_mtrace o ^ "panic:shift"
  | PStuck -> "stuck"
  | PFuel -> "out-of-fuel"

(* run: the VM model on a dump.  sem: the reference semantics on an AST.
   tv: both, which must agree (translation validation of one program). *)
let handle (f : string list) : string =
  match f with
  | ["run"; fuel; dump] -> show_outcome (vm_exec (parse_program dump) (nat_tr (int_of_string fuel)))
  | ["sem"; fuel; ast] -> show_pres (run_prog (parse_prog ast) (nat_tr (int_of_string fuel)))
  | ["tv"; fuel; dump; ast] ->
    let a = show_outcome (vm_exec (parse_program dump) (nat_tr (int_of_string fuel))) in
    let b = show_pres (run_prog (parse_prog ast) (nat_tr (int_of_string fuel))) in
    if a = b then "agree" else "differ:vm-model=" ^ a ^ ";minigo=" ^ b
  | ["emit"; k; np; e] ->
    let t = { a = Array.of_list (List.filter (fun x -> x <> "") (String.split_on_char ' ' e)); pos = 0 } in
    let rec pe () : iexpr =
      match next t with
      | "c" -> IConst (next_z t)
      | "v" -> IVar (next_z t)
      | "b" -> let op = binop_of (next t) in let a = pe () in let b = pe () in IBin (op, a, b)
      | x -> failwith ("iexpr token " ^ x) in
    let ex = pe () in
    (match compile_func (z_of_dec k) (z_of_dec np) ex with
     | None -> "none"
     | Some (code, pool) ->
       "ok:" ^ String.concat ";" (List.map (fun i -> String.concat " " (List.map dec_of_z [i.i_op; i.i_a; i.i_b; i.i_c])) code)
       ^ "|" ^ String.concat "," (List.map dec_of_z pool))
  | _ -> "driver-error:unknown-command"

let () = main_loop handle
