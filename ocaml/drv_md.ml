(* model driver for engine `md` *)
let show_mres (r : mres) : string =
  match r with
  | MOk o -> "ok:" ^ hex_of_bytes o
  | MErr c -> "err:" ^ string_of_int (int_of_n c)
  | MFault -> "panic"
  | MFuel -> "out-of-fuel"

let z_of_int (i : int) : z =
  if i = 0 then Z0 else if i > 0 then Zpos (pos_of_int i) else Zneg (pos_of_int (- i))

let show_lres (r : n list lres) : string =
  match r with
  | LOk o -> "ok:" ^ hex_of_bytes o
  | LFault -> "panic"
  | LFuel -> "out-of-fuel"

(* "start:stop:hex,start:stop:hex" ("-" = empty list) *)
let repls_of_string (s : string) : repl list =
  if s = "-" || s = "" then [] else
  List.map (fun e ->
    match String.split_on_char ':' e with
    | [a; b; h] -> { r_start = z_of_int (int_of_string a); r_stop = z_of_int (int_of_string b); r_text = bytes_of_hex h }
    | _ -> failwith "bad replacement") (String.split_on_char ',' s)

let handle (f : string list) : string =
  match f with
  | ["mdURLEscape"; h] -> show_lres (markdownURLEscape (bytes_of_hex h))
  | ["mdUnescape"; h] -> show_lres (markdownUnescape (bytes_of_hex h))
  | ["applyRepl"; h; l] ->
    (match applyReplacements (bytes_of_hex h) (repls_of_string l) with
     | Some o -> "ok:" ^ hex_of_bytes o
     | None -> "panic")
  | ["url_escape"; h] -> "ok:" ^ hex_of_bytes (url_escape (bytes_of_hex h))
  | ["url_unescape"; h] -> "ok:" ^ hex_of_bytes (url_unescape (bytes_of_hex h))
  | ["markdownEscape0"; h] -> show_mres (markdownEscape (bytes_of_hex h) false)
  | ["markdownEscape1"; h] -> show_mres (markdownEscape (bytes_of_hex h) true)
  | ["mdCodeBlockTab"; h] -> show_mres (markdownCodeBlockEscape (bytes_of_hex h) false)
  | ["mdCodeBlockSpaces"; h] -> show_mres (markdownCodeBlockEscape (bytes_of_hex h) true)
  | ["esc_doc"; h] -> "ok:" ^ hex_of_bytes (esc_doc (bytes_of_hex h))
  | ["md_unescape"; h] -> "ok:" ^ hex_of_bytes (md_unescape (bytes_of_hex h))
  | ["nbsp_norm"; h] -> "ok:" ^ hex_of_bytes (nbsp_norm (bytes_of_hex h))
  | _ -> "driver-error:unknown-command"

let () = main_loop handle
