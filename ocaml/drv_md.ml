(* model driver for engine `md` *)
let show_mres (r : mres) : string =
  match r with
  | MOk o -> "ok:" ^ hex_of_bytes o
  | MErr c -> "err:" ^ string_of_int (int_of_n c)
  | MFault -> "panic"
  | MFuel -> "out-of-fuel"

let handle (f : string list) : string =
  match f with
  | ["markdownEscape0"; h] -> show_mres (markdownEscape (bytes_of_hex h) false)
  | ["markdownEscape1"; h] -> show_mres (markdownEscape (bytes_of_hex h) true)
  | ["mdCodeBlockTab"; h] -> show_mres (markdownCodeBlockEscape (bytes_of_hex h) false)
  | ["mdCodeBlockSpaces"; h] -> show_mres (markdownCodeBlockEscape (bytes_of_hex h) true)
  | ["esc_doc"; h] -> "ok:" ^ hex_of_bytes (esc_doc (bytes_of_hex h))
  | ["md_unescape"; h] -> "ok:" ^ hex_of_bytes (md_unescape (bytes_of_hex h))
  | ["nbsp_norm"; h] -> "ok:" ^ hex_of_bytes (nbsp_norm (bytes_of_hex h))
  | _ -> "driver-error:unknown-command"

let () = main_loop handle
