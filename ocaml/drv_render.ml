(* model driver for engine `render` *)
let split c s = if s = "" then [] else String.split_on_char c s
let opt_bytes (f : string) : n list option =
  if f = "-" then None else Some (bytes_of_hex (String.sub f 1 (String.length f - 1)))
(* chunk list: "-" = none, else x<hex> joined by '.' *)
let chunks_of (f : string) : n list list =
  if f = "-" then [] else List.map (fun c -> bytes_of_hex (String.sub c 1 (String.length c - 1))) (String.split_on_char '.' f)
let chunks_s (l : n list list) : string =
  if l = [] then "-" else String.concat "." (List.map (fun c -> "x" ^ hex_of_bytes c) l)
let b01 s = s = "1"
let writer_of (fail_at : int) : n -> n option =
  fun k -> if fail_at > 0 && int_of_n k >= fail_at then Some (n_of_int 7) else None
let res_s = function ROk -> "ok" | RErr e -> "e" ^ string_of_int (int_of_n e) | RFault -> "fault"
let st_s (st : rstate) = (if st.inURL then "1" else "0") ^ (if st.query then "1" else "0")
                         ^ (if st.addAmp then "1" else "0") ^ (if st.remQ then "1" else "0")
let parse_op (s : string) : op =
  match String.split_on_char ':' s with
  | ["T"; h; u; st] -> OText (bytes_of_hex h, b01 u, b01 st)
  | ["S"; c; ch; e; url] ->
    let e = if e = "-" then None else Some (n_of_int (int_of_string e)) in
    OShow (n_of_int (int_of_string c), { sv_chunks = chunks_of ch; sv_err = e; sv_url = opt_bytes url })
  | _ -> failwith ("bad op " ^ s)

(* ---- file sets of the template calculus: a token stream, see harness/cmd/h_render/tcalc.go *)
let parse_shown ch e url : shown =
  let e = if e = "-" then None else Some (n_of_int (int_of_string e)) in
  { sv_chunks = chunks_of ch; sv_err = e; sv_url = opt_bytes url }

let parse_fileset (s : string) =
  let toks = ref (List.filter (fun t -> t <> "") (String.split_on_char ' ' s)) in
  let next () = match !toks with [] -> failwith "eof" | t :: r -> toks := r; t in
  let int () = int_of_string (next ()) in
  let nat () = nat_of_int (int ()) in
  let num () = n_of_int (int ()) in
  let opt () = let i = int () in if i < 0 then None else Some (n_of_int i) in
  let expect t = let x = next () in if x <> t then failwith ("expected " ^ t ^ " got " ^ x) in
  let rec times k f = if k <= 0 then [] else let x = f () in x :: times (k - 1) f in
  let arg () = match next () with
    | "v" -> AVal (num ())
    | "p" -> AParam (nat ())
    | t -> failwith ("arg " ^ t) in
  let exp () = match next () with
    | "v" -> EVal (num ())
    | "p" -> EParam (nat ())
    | "r" -> ERender (num ())
    | "c" -> let a = opt () in let name = num () in let k = int () in ECall (a, name, times k arg)
    | t -> failwith ("exp " ^ t) in
  let node () = match next () with
    | "T" -> let h = next () in let u = next () in let st = next () in
      SText (bytes_of_hex (String.sub h 1 (String.length h - 1)), b01 u, b01 st)
    | "S" -> let c = num () in SShow (c, exp ())
    | "V" -> let c = num () in SVarShow (c, exp ())
    | t -> failwith ("node " ^ t) in
  let nodes () = let k = int () in times k node in
  let import () = expect "I"; let p = num () in let a = opt () in
    let k = int () in
    let fl = if k < 0 then None else Some (times k num) in
    { i_path = p; i_alias = a; i_for = fl } in
  let macro () = expect "M"; let name = num () in let f = num () in let np = nat () in let r = b01 (next ()) in
    let b = nodes () in
    { m_name = name; m_fmt = f; m_nparams = np; m_rec = r; m_body = b } in
  let file () = expect "F"; let p = num () in let f = num () in let ext = opt () in let r = b01 (next ()) in
    let ni = int () in let imps = times ni import in
    let nm = int () in let ms = times nm macro in
    let b = nodes () in
    (p, { f_fmt = f; f_extends = ext; f_imports = imps; f_macros = ms; f_rec = r; f_body = b }) in
  let n = int () in
  times n file

let parse_vals (s : string) : n -> n -> shown =
  let tbl = Hashtbl.create 64 in
  List.iter (fun e ->
    match String.split_on_char ':' e with
    | [id; c; ch; er; url] -> Hashtbl.replace tbl (int_of_string id, int_of_string c) (parse_shown ch er url)
    | _ -> failwith ("bad val " ^ e)) (split ';' s);
  fun id c -> match Hashtbl.find_opt tbl (int_of_n id, int_of_n c) with
    | Some v -> v
    | None -> { sv_chunks = []; sv_err = Some (n_of_int 998); sv_url = None }

let run_result_s = function
  | RunNil -> "nil"
  | RunErr e -> "e" ^ string_of_int (int_of_n e)
  | RunHostPanic (Some e) -> "hostpanic:e" ^ string_of_int (int_of_n e)
  | RunHostPanic None -> "hostpanic:none"

let script_s (sc : act list) : string =
  String.concat "." (List.map (function AWrite c -> "x" ^ hex_of_bytes c | AFault -> "FAULT") sc)


(* ---- type descriptors and values of the show model (C05), in the syntax of
   harness/cmd/h_render/showzoo.go zdesc / zenc (the one of the show engine):
     ty    ::= L<kind>.<flags> | A<fl>(ty) | S<fl>(ty) | P<fl>(ty) | M<fl>(ty,ty)
             | T<fl>(field;...) | R<n>         field ::= <0|1>:<hexname>:<hextag>:ty
     value ::= n | b0 | b1 | i<int> | u<nat> | f<bits> | c<re>_<im> | s<hex>. | o | z
             | y<hex>. | q(v,...) | p(v) | m(k:v,...) | t(v,...) | d<id> | I(ty|v)   *)
let zten = n_of_int 10
let zn_of_dec (s : string) : n =
  let acc = ref N0 in
  String.iter (fun c -> acc := N.add (N.mul !acc zten) (n_of_int (Char.code c - 48))) s;
  !acc
type zst = { zs : string; mutable zp : int }
let zpeek st = if st.zp < String.length st.zs then st.zs.[st.zp] else '\000'
let znext st = let c = zpeek st in st.zp <- st.zp + 1; c
let zexpect st c = if znext st <> c then failwith (Printf.sprintf "parse: expected %c at %d in %s" c (st.zp - 1) st.zs)
let zdigits st =
  let b = st.zp in
  while (match zpeek st with '0' .. '9' -> true | _ -> false) do st.zp <- st.zp + 1 done;
  String.sub st.zs b (st.zp - b)
let zhexrun st =
  let b = st.zp in
  while (match zpeek st with '0' .. '9' | 'a' .. 'f' -> true | _ -> false) do st.zp <- st.zp + 1 done;
  bytes_of_hex (String.sub st.zs b (st.zp - b))
let rec zparse_ty st : ty =
  match znext st with
  | 'L' -> let k = zn_of_dec (zdigits st) in zexpect st '.'; let fl = zn_of_dec (zdigits st) in TLeaf (k, fl)
  | 'A' -> let fl = zn_of_dec (zdigits st) in zexpect st '('; let e = zparse_ty st in zexpect st ')'; TArr (fl, e)
  | 'S' -> let fl = zn_of_dec (zdigits st) in zexpect st '('; let e = zparse_ty st in zexpect st ')'; TSlice (fl, e)
  | 'P' -> let fl = zn_of_dec (zdigits st) in zexpect st '('; let e = zparse_ty st in zexpect st ')'; TPtr (fl, e)
  | 'M' -> let fl = zn_of_dec (zdigits st) in zexpect st '('; let k = zparse_ty st in zexpect st ','; let e = zparse_ty st in zexpect st ')'; TMap (fl, k, e)
  | 'T' ->
    let fl = zn_of_dec (zdigits st) in
    zexpect st '(';
    let fs = ref [] in
    if zpeek st = ')' then ignore (znext st)
    else begin
      let continue = ref true in
      while !continue do
        let e = znext st = '1' in
        zexpect st ':';
        let name = zhexrun st in
        zexpect st ':';
        let tag = zhexrun st in
        zexpect st ':';
        let t = zparse_ty st in
        fs := ({ f_exported = e; f_name = name; f_tag = tag }, t) :: !fs;
        (match znext st with ';' -> () | ')' -> continue := false | _ -> failwith "parse: struct")
      done
    end;
    TStruct (fl, List.rev !fs)
  | 'R' -> TRec (nat_of_int (int_of_string (zdigits st)))
  | c -> failwith (Printf.sprintf "parse: type %c" c)
let zparse_list st (item : zst -> 'a) : 'a list =
  zexpect st '(';
  if zpeek st = ')' then (ignore (znext st); [])
  else begin
    let acc = ref [] in
    let continue = ref true in
    while !continue do
      acc := item st :: !acc;
      (match znext st with ',' -> () | ')' -> continue := false | _ -> failwith "parse: list")
    done;
    List.rev !acc
  end
let rec zparse_val st : value =
  match znext st with
  | 'n' -> VNil
  | 'b' -> VBool (znext st = '1')
  | 'i' ->
    if zpeek st = '-' then (ignore (znext st); VInt (Z.opp (Z.of_N (zn_of_dec (zdigits st)))))
    else VInt (Z.of_N (zn_of_dec (zdigits st)))
  | 'u' -> VUint (zn_of_dec (zdigits st))
  | 'f' -> VFloat (zn_of_dec (zdigits st))
  | 'c' -> let re = zn_of_dec (zdigits st) in zexpect st '_'; let im = zn_of_dec (zdigits st) in VComplex (re, im)
  | 's' -> let b = zhexrun st in zexpect st '.'; VStr b
  | 'o' -> VOpaque
  | 'z' -> VNilRef
  | 'y' -> let b = zhexrun st in zexpect st '.'; VBytes b
  | 'q' -> VSeq (zparse_list st zparse_val)
  | 'p' -> zexpect st '('; let v = zparse_val st in zexpect st ')'; VPtr v
  | 'm' -> VMap (zparse_list st (fun st -> let k = zparse_val st in zexpect st ':'; let v = zparse_val st in (k, v)))
  | 't' -> VStruct (zparse_list st zparse_val)
  | 'd' -> VTime (zn_of_dec (zdigits st))
  | 'I' -> zexpect st '('; let d = zparse_ty st in zexpect st '|'; let v = zparse_val st in zexpect st ')'; VIface (d, v)
  | c -> failwith (Printf.sprintf "parse: value %c" c)
let zty_of_string s = let st = { zs = s; zp = 0 } in let t = zparse_ty st in if st.zp <> String.length s then failwith "parse: trailing"; t
let zval_of_string s = let st = { zs = s; zp = 0 } in let v = zparse_val st in if st.zp <> String.length s then failwith "parse: trailing"; v


(* ---- values of WriteProgM (C13): s<hex> | b<hex> | j<jval>,
   jval ::= T<hex> | S<hex> | Q<hex> | B<hex> | A(j,...) | O(<hexname>:j,...) | F *)
let rec wparse_j st : jval =
  match znext st with
  | 'T' -> JText (zhexrun st)
  | 'S' -> JStr (zhexrun st)
  | 'Q' -> JTime (zhexrun st)
  | 'B' -> JBytes (zhexrun st)
  | 'A' -> JSeq (zparse_list st wparse_j)
  | 'O' -> JObj (zparse_list st (fun st -> let name = zhexrun st in zexpect st ':'; let v = wparse_j st in (name, v)))
  | 'F' -> JFail
  | c -> failwith (Printf.sprintf "parse: jval %c" c)
let wsval_of_string (s : string) : sval =
  let st = { zs = s; zp = 0 } in
  let v = (match znext st with
    | 's' -> SvStr (zhexrun st)
    | 'b' -> SvBytes (zhexrun st)
    | 'j' -> SvJ (wparse_j st)
    | c -> failwith (Printf.sprintf "parse: sval %c" c)) in
  if st.zp <> String.length s then failwith "parse: trailing"; v


(* ---- one URL attribute (C07): items T:<hex> / S:<hex> separated by ';' *)
let uparse_items (s : string) : item list =
  List.map (fun e -> match String.split_on_char ':' e with
    | ["T"; h] -> UText (bytes_of_hex h)
    | ["S"; h] -> UShow (bytes_of_hex h)
    | _ -> failwith ("bad item " ^ e)) (split ';' s)
let ucanon (u : url) : string =
  let pairs = List.filter (fun (k, v) -> not (k = [] && v = None)) (match u.u_query with Some l -> l | None -> []) in
  let ps = List.map (fun (k, v) -> hex_of_bytes k ^ ":" ^ (match v with Some x -> "x" ^ hex_of_bytes x | None -> "-")) pairs in
  "path=x" ^ hex_of_bytes u.u_path ^ " query=" ^ (if ps = [] then "-" else String.concat "," ps)
  ^ " frag=" ^ (match u.u_frag with Some (_ :: _ as f) -> "x" ^ hex_of_bytes f | _ -> "-")

let handle (f : string list) : string =
  match f with
  | ["rend"; fail_at; ops] ->
    let w = writer_of (int_of_string fail_at) in
    let rec go st ws ops acc =
      match ops with
      | [] -> (Some st, ws, List.rev acc)
      | o :: r ->
        let ((st', ws'), x) = r_op w st ws o in
        if is_fault x then (None, ws', List.rev (x :: acc)) else go st' ws' r (x :: acc) in
    let (st, ws, rs) = go r0 w0 (List.map parse_op (split ';' ops)) [] in
    "st=" ^ (match st with Some s -> st_s s | None -> "-") ^ " calls=" ^ string_of_int (int_of_n ws.w_calls)
    ^ " out=" ^ chunks_s ws.w_out ^ " res=" ^ String.concat "," (List.map res_s rs)
  | ["tc"; fail_at; conv; main; vals; fset] ->
    let w = writer_of (int_of_string fail_at) in
    let cv = if conv = "1" then Some harness_conv else None in
    (match build_and_run (parse_vals vals) (parse_fileset fset) cv (nat_of_int 40) (n_of_int (int_of_string main)) w with
     | None -> "nolower"
     | Some (ws, r) -> "calls=" ^ string_of_int (int_of_n ws.w_calls) ^ " out=" ^ chunks_s ws.w_out ^ " res=" ^ run_result_s r)
  | ["conv"; op; cn; kind; msg; ] ->
    let opz = match op with
      | "OpAdd" -> gen_OpAdd | "OpAddr" -> gen_OpAddr | "OpIndex" -> gen_OpIndex | "OpIndexRef" -> gen_OpIndexRef
      | "OpSetSlice" -> gen_OpSetSlice | "OpAppendSlice" -> gen_OpAppendSlice | "OpCallIndirect" -> gen_OpCallIndirect
      | "OpCallNative" -> gen_OpCallNative | "OpClose" -> gen_OpClose | "OpConvert" -> gen_OpConvert | "OpDelete" -> gen_OpDelete
      | "OpMapIndex" -> gen_OpMapIndex | "OpMapIndexAny" -> gen_OpMapIndexAny | "OpDivInt" -> gen_OpDivInt | "OpDiv" -> gen_OpDiv
      | "OpRemInt" -> gen_OpRemInt | "OpRem" -> gen_OpRem | "OpGo" -> gen_OpGo | "OpIf" -> gen_OpIf | "OpIndexString" -> gen_OpIndexString
      | "OpMakeChan" -> gen_OpMakeChan | "OpMakeSlice" -> gen_OpMakeSlice | "OpPanic" -> gen_OpPanic | "OpSend" -> gen_OpSend
      | "OpSetMap" -> gen_OpSetMap | "OpSlice" -> gen_OpSlice | "OpStringSlice" -> gen_OpStringSlice | "OpReturn" -> gen_OpReturn
      | "OpCallMacro" -> gen_OpCallMacro | "OpShow" -> gen_OpShow | "OpText" -> gen_OpText
      | _ -> failwith ("op " ^ op) in
    let k = match kind with
      | "stop" -> KStop | "out" -> KOut | "fatal" -> KFatal | "panicerror" -> KPanicError | "scriggo" -> KScriggoRuntime | "go" -> KGoRuntime
      | "string" -> KString | "error" -> KError | "other" -> KOther | _ -> failwith ("kind " ^ kind) in
    let p = { p_kind = k; p_msg = bytes_of_hex msg; p_id = n_of_int 7 } in
    (match vm_run false false [SgRaise (false, opz, b01 cn, p, O)] with
     | RRNil -> "nil" | RRPanicError -> "panic" | RROutError _ -> "out" | RRCtx -> "ctx" | RRStop _ -> "stop"
     | RRError _ -> "error" | RRHostPanicFatal false -> "fatal:passed" | RRHostPanicFatal true -> "fatal:wrapped"
     | RRHostPanicGo -> "gopanic" | RRStuck -> "stuck")
  | ["show"; ctx; url; conv; ty; v] ->
    (match int_of_n (show_class (conv = "1") (zn_of_dec ctx) (url = "1") (zty_of_string ty) (zval_of_string v)) with
     | 0 -> "ok" | 1 -> "cannotshow" | 2 -> "panic" | 3 -> "stuck" | _ -> "illtyped")
  | ["wp"; _; fail_at; ctx; v] ->
    let w = writer_of (int_of_string fail_at) in
    let c = zn_of_dec ctx and x = wsval_of_string v in
    (match show_prog c x, show_view c x with
     | Some p, Some view ->
       let (ws, r) = p w w0 in
       (* the program and the early-exit run of its calls agree (theorem show_prog_view): evaluated here too *)
       let (ws2, r2) = run_shown view w w0 in
       if ws.w_calls <> ws2.w_calls || ws.w_out <> ws2.w_out || r <> r2 then "program-and-view-differ"
       else "calls=" ^ string_of_int (int_of_n ws.w_calls) ^ " out=" ^ chunks_s ws.w_out ^ " res=" ^ res_s r
     | _, _ -> "unmodelled")
  | ["urlattr"; q; its] ->
    let items = uparse_items its in
    let ctx = n_of_int (if q = "1" then 135 else 136) in
    let w = writer_of 0 in
    (* the operations of the attribute on the operational model, and the rule of the query position *)
    let rec go st ws before items qpos =
      match items with
      | [] -> (ws, qpos)
      | it :: r ->
        let o = (match it with
          | UText t -> OText (t, true, false)
          | UShow s -> OShow (ctx, { sv_chunks = []; sv_err = None; sv_url = Some s })) in
        let qpos' = (match it with UShow _ -> qpos ^ (if query_position (List.rev before) then "1" else "0") | UText _ -> qpos) in
        let ((st', ws'), x) = r_op w st ws o in
        if x <> ROk then failwith "operation failed" else go st' ws' (it :: before) r qpos' in
    let (ws, qpos) = go r0 w0 [] items "" in
    let out = List.concat ws.w_out in
    "out=x" ^ hex_of_bytes out ^ " qpos=" ^ qpos ^ " url=" ^ ucanon (url_ref_decode out)
  | ["pathEscape"; q; h] -> script_s (pathEscape (b01 q) (bytes_of_hex h))
  | ["queryEscape"; h] -> script_s (queryEscape (bytes_of_hex h))
  | ["pe_q"; h] -> "ok:" ^ hex_of_bytes (path_escape_quoted_bytes (bytes_of_hex h))
  | ["pe_u"; h] -> "ok:" ^ hex_of_bytes (path_escape_unquoted_bytes (bytes_of_hex h))
  | ["qe"; h] -> "ok:" ^ hex_of_bytes (query_escape_bytes (bytes_of_hex h))
  | _ -> "driver-error:unknown-command"

let () = main_loop handle
