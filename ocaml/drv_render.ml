(* model driver for engine `render` *)
let split c s = if s = "" then [] else String.split_on_char c s
let opt_bytes (f : string) : n list option =
  if f = "-" then None else Some (bytes_of_hex (String.sub f 1 (String.length f - 1)))
(* chunk list: "-" = none, else x<hex> joined by '.' *)
let chunks_of (f : string) : n list list =
  if f = "-" then [] else List.map (fun c -> bytes_of_hex (String.sub c 1 (String.length c - 1))) (String.split_on_char '.' f)
let chunks_s (l : n list list) : string =
  if l = [] then "-" else String.concat "." (List.map (fun c -> "x" ^ hex_of_bytes c) l)
let b01 s = s = "1"
let writer_of (fail_at : int) : n -> n option =
  fun k -> if fail_at > 0 && int_of_n k >= fail_at then Some (n_of_int 7) else None
let res_s = function ROk -> "ok" | RErr e -> "e" ^ string_of_int (int_of_n e) | RFault -> "fault"
let st_s (st : rstate) = (if st.inURL then "1" else "0") ^ (if st.query then "1" else "0")
                         ^ (if st.addAmp then "1" else "0") ^ (if st.remQ then "1" else "0")
let parse_op (s : string) : op =
  match String.split_on_char ':' s with
  | ["T"; h; u; st] -> OText (bytes_of_hex h, b01 u, b01 st)
  | ["S"; c; ch; e; url] ->
    let e = if e = "-" then None else Some (n_of_int (int_of_string e)) in
    OShow (n_of_int (int_of_string c), { sv_chunks = chunks_of ch; sv_err = e; sv_url = opt_bytes url })
  | _ -> failwith ("bad op " ^ s)

(* ---- file sets of the template calculus: a token stream, see harness/cmd/h_render/tcalc.go *)
let parse_shown ch e url : shown =
  let e = if e = "-" then None else Some (n_of_int (int_of_string e)) in
  { sv_chunks = chunks_of ch; sv_err = e; sv_url = opt_bytes url }

let parse_fileset (s : string) =
  let toks = ref (List.filter (fun t -> t <> "") (String.split_on_char ' ' s)) in
  let next () = match !toks with [] -> failwith "eof" | t :: r -> toks := r; t in
  let int () = int_of_string (next ()) in
  let nat () = nat_of_int (int ()) in
  let num () = n_of_int (int ()) in
  let opt () = let i = int () in if i < 0 then None else Some (n_of_int i) in
  let expect t = let x = next () in if x <> t then failwith ("expected " ^ t ^ " got " ^ x) in
  let rec times k f = if k <= 0 then [] else let x = f () in x :: times (k - 1) f in
  let arg () = match next () with
    | "v" -> AVal (num ())
    | "p" -> AParam (nat ())
    | t -> failwith ("arg " ^ t) in
  let exp () = match next () with
    | "v" -> EVal (num ())
    | "p" -> EParam (nat ())
    | "r" -> ERender (num ())
    | "c" -> let a = opt () in let name = num () in let k = int () in ECall (a, name, times k arg)
    | t -> failwith ("exp " ^ t) in
  let node () = match next () with
    | "T" -> let h = next () in let u = next () in let st = next () in
      SText (bytes_of_hex (String.sub h 1 (String.length h - 1)), b01 u, b01 st)
    | "S" -> let c = num () in SShow (c, exp ())
    | "V" -> let c = num () in SVarShow (c, exp ())
    | t -> failwith ("node " ^ t) in
  let nodes () = let k = int () in times k node in
  let import () = expect "I"; let p = num () in let a = opt () in
    let k = int () in
    let fl = if k < 0 then None else Some (times k num) in
    { i_path = p; i_alias = a; i_for = fl } in
  let macro () = expect "M"; let name = num () in let f = num () in let np = nat () in let r = b01 (next ()) in
    let b = nodes () in
    { m_name = name; m_fmt = f; m_nparams = np; m_rec = r; m_body = b } in
  let file () = expect "F"; let p = num () in let f = num () in let ext = opt () in let r = b01 (next ()) in
    let ni = int () in let imps = times ni import in
    let nm = int () in let ms = times nm macro in
    let b = nodes () in
    (p, { f_fmt = f; f_extends = ext; f_imports = imps; f_macros = ms; f_rec = r; f_body = b }) in
  let n = int () in
  times n file

let parse_vals (s : string) : n -> n -> shown =
  let tbl = Hashtbl.create 64 in
  List.iter (fun e ->
    match String.split_on_char ':' e with
    | [id; c; ch; er; url] -> Hashtbl.replace tbl (int_of_string id, int_of_string c) (parse_shown ch er url)
    | _ -> failwith ("bad val " ^ e)) (split ';' s);
  fun id c -> match Hashtbl.find_opt tbl (int_of_n id, int_of_n c) with
    | Some v -> v
    | None -> { sv_chunks = []; sv_err = Some (n_of_int 998); sv_url = None }

let run_result_s = function
  | RunNil -> "nil"
  | RunErr e -> "e" ^ string_of_int (int_of_n e)
  | RunHostPanic (Some e) -> "hostpanic:e" ^ string_of_int (int_of_n e)
  | RunHostPanic None -> "hostpanic:none"

let script_s (sc : act list) : string =
  String.concat "." (List.map (function AWrite c -> "x" ^ hex_of_bytes c | AFault -> "FAULT") sc)

let handle (f : string list) : string =
  match f with
  | ["rend"; fail_at; ops] ->
    let w = writer_of (int_of_string fail_at) in
    let rec go st ws ops acc =
      match ops with
      | [] -> (Some st, ws, List.rev acc)
      | o :: r ->
        let ((st', ws'), x) = r_op w st ws o in
        if is_fault x then (None, ws', List.rev (x :: acc)) else go st' ws' r (x :: acc) in
    let (st, ws, rs) = go r0 w0 (List.map parse_op (split ';' ops)) [] in
    "st=" ^ (match st with Some s -> st_s s | None -> "-") ^ " calls=" ^ string_of_int (int_of_n ws.w_calls)
    ^ " out=" ^ chunks_s ws.w_out ^ " res=" ^ String.concat "," (List.map res_s rs)
  | ["tc"; fail_at; conv; main; vals; fset] ->
    let w = writer_of (int_of_string fail_at) in
    let cv = if conv = "1" then Some harness_conv else None in
    (match build_and_run (parse_vals vals) (parse_fileset fset) cv (nat_of_int 40) (n_of_int (int_of_string main)) w with
     | None -> "nolower"
     | Some (ws, r) -> "calls=" ^ string_of_int (int_of_n ws.w_calls) ^ " out=" ^ chunks_s ws.w_out ^ " res=" ^ run_result_s r)
  | ["conv"; op; cn; kind; msg; ] ->
    let opz = match op with
      | "OpAdd" -> gen_OpAdd | "OpAddr" -> gen_OpAddr | "OpIndex" -> gen_OpIndex | "OpIndexRef" -> gen_OpIndexRef
      | "OpSetSlice" -> gen_OpSetSlice | "OpAppendSlice" -> gen_OpAppendSlice | "OpCallIndirect" -> gen_OpCallIndirect
      | "OpCallNative" -> gen_OpCallNative | "OpClose" -> gen_OpClose | "OpConvert" -> gen_OpConvert | "OpDelete" -> gen_OpDelete
      | "OpMapIndex" -> gen_OpMapIndex | "OpMapIndexAny" -> gen_OpMapIndexAny | "OpDivInt" -> gen_OpDivInt | "OpDiv" -> gen_OpDiv
      | "OpRemInt" -> gen_OpRemInt | "OpRem" -> gen_OpRem | "OpGo" -> gen_OpGo | "OpIf" -> gen_OpIf | "OpIndexString" -> gen_OpIndexString
      | "OpMakeChan" -> gen_OpMakeChan | "OpMakeSlice" -> gen_OpMakeSlice | "OpPanic" -> gen_OpPanic | "OpSend" -> gen_OpSend
      | "OpSetMap" -> gen_OpSetMap | "OpSlice" -> gen_OpSlice | "OpStringSlice" -> gen_OpStringSlice | "OpReturn" -> gen_OpReturn
      | "OpCallMacro" -> gen_OpCallMacro | "OpShow" -> gen_OpShow | "OpText" -> gen_OpText
      | _ -> failwith ("op " ^ op) in
    let k = match kind with
      | "stop" -> KStop | "out" -> KOut | "fatal" -> KFatal | "panicerror" -> KPanicError | "scriggo" -> KScriggoRuntime | "go" -> KGoRuntime
      | "string" -> KString | "error" -> KError | "other" -> KOther | _ -> failwith ("kind " ^ kind) in
    let p = { p_kind = k; p_msg = bytes_of_hex msg; p_id = n_of_int 7 } in
    (match vm_run false false [SgRaise (false, opz, b01 cn, p, O)] with
     | RRNil -> "nil" | RRPanicError -> "panic" | RROutError _ -> "out" | RRCtx -> "ctx" | RRStop _ -> "stop"
     | RRError _ -> "error" | RRHostPanicFatal false -> "fatal:passed" | RRHostPanicFatal true -> "fatal:wrapped"
     | RRHostPanicGo -> "gopanic" | RRStuck -> "stuck")
  | ["pathEscape"; q; h] -> script_s (pathEscape (b01 q) (bytes_of_hex h))
  | ["queryEscape"; h] -> script_s (queryEscape (bytes_of_hex h))
  | ["pe_q"; h] -> "ok:" ^ hex_of_bytes (path_escape_quoted_bytes (bytes_of_hex h))
  | ["pe_u"; h] -> "ok:" ^ hex_of_bytes (path_escape_unquoted_bytes (bytes_of_hex h))
  | ["qe"; h] -> "ok:" ^ hex_of_bytes (query_escape_bytes (bytes_of_hex h))
  | _ -> "driver-error:unknown-command"

let () = main_loop handle
