(* model driver for engine `render` *)
let split c s = if s = "" then [] else String.split_on_char c s
let opt_bytes (f : string) : n list option =
  if f = "-" then None else Some (bytes_of_hex (String.sub f 1 (String.length f - 1)))
(* chunk list: "-" = none, else x<hex> joined by '.' *)
let chunks_of (f : string) : n list list =
  if f = "-" then [] else List.map (fun c -> bytes_of_hex (String.sub c 1 (String.length c - 1))) (String.split_on_char '.' f)
let chunks_s (l : n list list) : string =
  if l = [] then "-" else String.concat "." (List.map (fun c -> "x" ^ hex_of_bytes c) l)
let b01 s = s = "1"
let writer_of (fail_at : int) : n -> n option =
  fun k -> if fail_at > 0 && int_of_n k >= fail_at then Some (n_of_int 7) else None
let res_s = function ROk -> "ok" | RErr e -> "e" ^ string_of_int (int_of_n e) | RFault -> "fault"
let st_s (st : rstate) = (if st.inURL then "1" else "0") ^ (if st.query then "1" else "0")
                         ^ (if st.addAmp then "1" else "0") ^ (if st.remQ then "1" else "0")
let parse_op (s : string) : op =
  match String.split_on_char ':' s with
  | ["T"; h; u; st] -> OText (bytes_of_hex h, b01 u, b01 st)
  | ["S"; c; ch; e; url] ->
    let e = if e = "-" then None else Some (n_of_int (int_of_string e)) in
    OShow (n_of_int (int_of_string c), { sv_chunks = chunks_of ch; sv_err = e; sv_url = opt_bytes url })
  | _ -> failwith ("bad op " ^ s)

let script_s (sc : act list) : string =
  String.concat "." (List.map (function AWrite c -> "x" ^ hex_of_bytes c | AFault -> "FAULT") sc)

let handle (f : string list) : string =
  match f with
  | ["rend"; fail_at; ops] ->
    let w = writer_of (int_of_string fail_at) in
    let rec go st ws ops acc =
      match ops with
      | [] -> (Some st, ws, List.rev acc)
      | o :: r ->
        let ((st', ws'), x) = r_op w st ws o in
        if is_fault x then (None, ws', List.rev (x :: acc)) else go st' ws' r (x :: acc) in
    let (st, ws, rs) = go r0 w0 (List.map parse_op (split ';' ops)) [] in
    "st=" ^ (match st with Some s -> st_s s | None -> "-") ^ " calls=" ^ string_of_int (int_of_n ws.w_calls)
    ^ " out=" ^ chunks_s ws.w_out ^ " res=" ^ String.concat "," (List.map res_s rs)
  | ["pathEscape"; q; h] -> script_s (pathEscape (b01 q) (bytes_of_hex h))
  | ["queryEscape"; h] -> script_s (queryEscape (bytes_of_hex h))
  | ["pe_q"; h] -> "ok:" ^ hex_of_bytes (path_escape_quoted_bytes (bytes_of_hex h))
  | ["pe_u"; h] -> "ok:" ^ hex_of_bytes (path_escape_unquoted_bytes (bytes_of_hex h))
  | ["qe"; h] -> "ok:" ^ hex_of_bytes (query_escape_bytes (bytes_of_hex h))
  | _ -> "driver-error:unknown-command"

let () = main_loop handle
