(* model driver for engine `lexer` *)
let opt_hex (o : n list option) : string =
  match o with
  | Some b -> "ok:" ^ hex_of_bytes b
  | None -> "panic"

let handle (f : string list) : string =
  match f with
  | ["lex"; cfg; src] -> opt_hex (lex_case (bytes_of_hex cfg) (bytes_of_hex src))
  | ["posok"; cfg; src] -> opt_hex (pos_case (bytes_of_hex cfg) (bytes_of_hex src))
  | ["lexprog"; src] -> opt_hex (lexprog_case (bytes_of_hex src))
  | ["posokp"; src] -> opt_hex (posprog_case (bytes_of_hex src))
  | ["cut"; cfg; src] -> opt_hex (cut_case (bytes_of_hex cfg) (bytes_of_hex src))
  | ["tiles"; cfg; src] -> opt_hex (tiles_case (bytes_of_hex cfg) (bytes_of_hex src))
  | ["ctxsim"; src] -> opt_hex (ctx_sim_case (bytes_of_hex src))
  | ["ctxfrag"; src] -> opt_hex (ctx_frag_case (bytes_of_hex src))
  | ["ctxsim2"; src] -> opt_hex (ctx_sim2_case (bytes_of_hex src))
  | ["devs"; cfg; src] -> opt_hex (lex_devs (bytes_of_hex cfg) (bytes_of_hex src))
  | _ -> "driver-error:unknown-command"

let () = main_loop handle
