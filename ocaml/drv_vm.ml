(* model driver for engine `vm` *)
let opt_bytes (r : n list option) : string =
  match r with
  | Some o -> "ok:" ^ hex_of_bytes o
  | None -> "none"

let handle (f : string list) : string =
  match f with
  | ["frames"; h] -> opt_bytes (frames_case (bytes_of_hex h))
  | ["gospec"; h] -> opt_bytes (gospec_case (bytes_of_hex h))
  | ["spawn"; h] -> opt_bytes (spawn_case (bytes_of_hex h))
  | ["cancel"; h] -> opt_bytes (cancel_case (bytes_of_hex h))
  | _ -> "driver-error:unknown-command"

let () = main_loop handle
