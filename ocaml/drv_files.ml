(* model driver for engine `files`: every command takes hex byte strings, which the
   extracted Coq functions decode themselves (coq/model/*WireM.v), and prints
   ok:<hex of the encoded result>, or `undecodable` *)
let opt o = match o with Some b -> "ok:" ^ hex_of_bytes b | None -> "undecodable"

let handle (f : string list) : string =
  match f with
  | ["C22.lookupfunc"; t; sc] -> opt (c22_lookupfunc (bytes_of_hex t) (bytes_of_hex sc))
  | ["C22.lookup"; t; ns] -> opt (c22_lookup (bytes_of_hex t) (bytes_of_hex ns))
  | ["C22.import"; i; p] -> opt (c22_import (bytes_of_hex i) (bytes_of_hex p))
  | ["C23.history"; fs; ops] -> opt (c23_history (bytes_of_hex fs) (bytes_of_hex ops))
  | ["C23.valid"; fs; x] -> opt (c23_valid (bytes_of_hex fs) (bytes_of_hex x))
  | _ -> "driver-error:unknown-command"

let () = main_loop handle
