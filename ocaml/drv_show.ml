(* model driver for engine `show`: type descriptors and values arrive in a
   small ASCII syntax (see harness/cmd/h_show/main.go desc / encVal):
     ty    ::= L<kind>.<flags> | A<fl>(ty) | S<fl>(ty) | P<fl>(ty) | M<fl>(ty,ty)
             | T<fl>(field;...) | R<n>         field ::= <0|1>:<hexname>:<hextag>:ty
     value ::= n | b0 | b1 | i<int> | u<nat> | f<bits> | c<re>_<im> | s<hex>. | o | z
             | y<hex>. | q(v,...) | p(v) | m(k:v,...) | t(v,...) | d<id> | I(ty|v)            *)

let ten = n_of_int 10
let n_of_dec (s : string) : n =
  let acc = ref N0 in
  String.iter (fun c -> acc := N.add (N.mul !acc ten) (n_of_int (Char.code c - 48))) s;
  !acc

type st = { s : string; mutable p : int }
let peek st = if st.p < String.length st.s then st.s.[st.p] else '\000'
let next st = let c = peek st in st.p <- st.p + 1; c
let expect st c = if next st <> c then failwith (Printf.sprintf "parse: expected %c at %d in %s" c (st.p - 1) st.s)
let digits st =
  let b = st.p in
  while (match peek st with '0' .. '9' -> true | _ -> false) do st.p <- st.p + 1 done;
  String.sub st.s b (st.p - b)
let hexrun st =
  let b = st.p in
  while (match peek st with '0' .. '9' | 'a' .. 'f' -> true | _ -> false) do st.p <- st.p + 1 done;
  bytes_of_hex (String.sub st.s b (st.p - b))

let rec parse_ty st : ty =
  match next st with
  | 'L' -> let k = n_of_dec (digits st) in expect st '.'; let fl = n_of_dec (digits st) in TLeaf (k, fl)
  | 'A' -> let fl = n_of_dec (digits st) in expect st '('; let e = parse_ty st in expect st ')'; TArr (fl, e)
  | 'S' -> let fl = n_of_dec (digits st) in expect st '('; let e = parse_ty st in expect st ')'; TSlice (fl, e)
  | 'P' -> let fl = n_of_dec (digits st) in expect st '('; let e = parse_ty st in expect st ')'; TPtr (fl, e)
  | 'M' -> let fl = n_of_dec (digits st) in expect st '('; let k = parse_ty st in expect st ','; let e = parse_ty st in expect st ')'; TMap (fl, k, e)
  | 'T' ->
    let fl = n_of_dec (digits st) in
    expect st '(';
    let fs = ref [] in
    if peek st = ')' then ignore (next st)
    else begin
      let continue = ref true in
      while !continue do
        let e = next st = '1' in
        expect st ':';
        let name = hexrun st in
        expect st ':';
        let tag = hexrun st in
        expect st ':';
        let t = parse_ty st in
        fs := ({ f_exported = e; f_name = name; f_tag = tag }, t) :: !fs;
        (match next st with ';' -> () | ')' -> continue := false | _ -> failwith "parse: struct")
      done
    end;
    TStruct (fl, List.rev !fs)
  | 'R' -> TRec (nat_of_int (int_of_string (digits st)))
  | c -> failwith (Printf.sprintf "parse: type %c" c)

let rec parse_list st (item : st -> 'a) : 'a list =
  expect st '(';
  if peek st = ')' then (ignore (next st); [])
  else begin
    let acc = ref [] in
    let continue = ref true in
    while !continue do
      acc := item st :: !acc;
      (match next st with ',' -> () | ')' -> continue := false | _ -> failwith "parse: list")
    done;
    List.rev !acc
  end

let rec parse_val st : value =
  match next st with
  | 'n' -> VNil
  | 'b' -> VBool (next st = '1')
  | 'i' ->
    if peek st = '-' then (ignore (next st); VInt (Z.opp (Z.of_N (n_of_dec (digits st)))))
    else VInt (Z.of_N (n_of_dec (digits st)))
  | 'u' -> VUint (n_of_dec (digits st))
  | 'f' -> VFloat (n_of_dec (digits st))
  | 'c' -> let re = n_of_dec (digits st) in expect st '_'; let im = n_of_dec (digits st) in VComplex (re, im)
  | 's' -> let b = hexrun st in expect st '.'; VStr b
  | 'o' -> VOpaque
  | 'z' -> VNilRef
  | 'y' -> let b = hexrun st in expect st '.'; VBytes b
  | 'q' -> VSeq (parse_list st parse_val)
  | 'p' -> expect st '('; let v = parse_val st in expect st ')'; VPtr v
  | 'm' -> VMap (parse_list st (fun st -> let k = parse_val st in expect st ':'; let v = parse_val st in (k, v)))
  | 't' -> VStruct (parse_list st parse_val)
  | 'd' -> VTime (n_of_dec (digits st))
  | 'I' -> expect st '('; let d = parse_ty st in expect st '|'; let v = parse_val st in expect st ')'; VIface (d, v)
  | c -> failwith (Printf.sprintf "parse: value %c" c)

let ty_of_string s = let st = { s; p = 0 } in let t = parse_ty st in if st.p <> String.length s then failwith "parse: trailing"; t
let val_of_string s = let st = { s; p = 0 } in let v = parse_val st in if st.p <> String.length s then failwith "parse: trailing"; v

(* oracle entries: kind|key|hextext separated by spaces
     F|<bits>.<ieee>           strconv.FormatFloat        Z|<bits>.<ieee>   v.Float() == 0 (text 1/0)
     C|<bits>.<re>.<im>        toString of a complex      E|<ty>|<val>      v.Error()
     K|<ty>|<val>              key String()               T|<fn>.<c>|<ty>|<val>  trusted text
     DJ|<id> / DN|<id>         time in JS (empty: panics) / JSON           N|<ty> type name        *)
let parse_oracles (s : string) : (string, n list) Hashtbl.t =
  let h = Hashtbl.create 16 in
  if s <> "" then
    List.iter (fun e ->
      match String.rindex_opt e '|' with
      | Some i -> Hashtbl.replace h (String.sub e 0 i) (bytes_of_hex (String.sub e (i + 1) (String.length e - i - 1)))
      | None -> ()) (String.split_on_char ' ' s);
  h

let rec ty_to_string (t : ty) : string =
  let ns x = string_of_int (int_of_n x) in
  match t with
  | TLeaf (k, fl) -> "L" ^ ns k ^ "." ^ ns fl
  | TArr (fl, e) -> "A" ^ ns fl ^ "(" ^ ty_to_string e ^ ")"
  | TSlice (fl, e) -> "S" ^ ns fl ^ "(" ^ ty_to_string e ^ ")"
  | TPtr (fl, e) -> "P" ^ ns fl ^ "(" ^ ty_to_string e ^ ")"
  | TMap (fl, k, e) -> "M" ^ ns fl ^ "(" ^ ty_to_string k ^ "," ^ ty_to_string e ^ ")"
  | TStruct (fl, fs) ->
    "T" ^ ns fl ^ "(" ^ String.concat ";" (List.map (fun (fi, ft) ->
      (if fi.f_exported then "1" else "0") ^ ":" ^ hex_of_bytes fi.f_name ^ ":" ^ hex_of_bytes fi.f_tag ^ ":" ^ ty_to_string ft) fs) ^ ")"
  | TRec n -> "R" ^ string_of_int (int_of_nat n)

(* decimal text of an N that may exceed max_int *)
let rec dec_of_n (x : n) : string =
  match x with
  | N0 -> "0"
  | _ ->
    let (q, r) = N.div_eucl x ten in
    (match q with N0 -> "" | _ -> dec_of_n q) ^ string_of_int (int_of_n r)

let rec val_to_string (v : value) : string =
  match v with
  | VNil -> "n"
  | VBool b -> if b then "b1" else "b0"
  | VInt z -> (match z with Zneg p -> "i-" ^ dec_of_n (Npos p) | Z0 -> "i0" | Zpos p -> "i" ^ dec_of_n (Npos p))
  | VUint x -> "u" ^ dec_of_n x
  | VFloat x -> "f" ^ dec_of_n x
  | VComplex (re, im) -> "c" ^ dec_of_n re ^ "_" ^ dec_of_n im
  | VStr s -> "s" ^ hex_of_bytes s ^ "."
  | VOpaque -> "o"
  | VNilRef -> "z"
  | VBytes s -> "y" ^ hex_of_bytes s ^ "."
  | VSeq xs -> "q(" ^ String.concat "," (List.map val_to_string xs) ^ ")"
  | VPtr x -> "p(" ^ val_to_string x ^ ")"
  | VMap kvs -> "m(" ^ String.concat "," (List.map (fun (k, x) -> val_to_string k ^ ":" ^ val_to_string x) kvs) ^ ")"
  | VStruct xs -> "t(" ^ String.concat "," (List.map val_to_string xs) ^ ")"
  | VTime x -> "d" ^ dec_of_n x
  | VIface (d, x) -> "I(" ^ ty_to_string d ^ "|" ^ val_to_string x ^ ")"

let missing = ref []
let leaves_of (h : (string, n list) Hashtbl.t) : leaves =
  let get k = match Hashtbl.find_opt h k with Some b -> b | None -> missing := k :: !missing; [] in
  let fn f = match f with FJS -> "JS" | FJSON -> "JSON" in
  { lf_trusted = (fun f c t v -> get ("T|" ^ fn f ^ "." ^ dec_of_n c ^ "|" ^ ty_to_string t ^ "|" ^ val_to_string v));
    lf_time_js = (fun x -> match Hashtbl.find_opt h ("DJ|" ^ dec_of_n x) with Some [] -> None | Some b -> Some b | None -> missing := "DJ" :: !missing; None);
    lf_time_json = (fun x -> get ("DN|" ^ dec_of_n x));
    lf_error_text = (fun t v -> get ("E|" ^ ty_to_string t ^ "|" ^ val_to_string v));
    lf_key_text = (fun t v -> get ("K|" ^ ty_to_string t ^ "|" ^ val_to_string v));
    lf_float = (fun bits x -> get ("F|" ^ dec_of_n bits ^ "." ^ dec_of_n x));
    lf_float_zero = (fun bits x -> get ("Z|" ^ dec_of_n bits ^ "." ^ dec_of_n x) = [n_of_int 49]);
    lf_complex = (fun bits re im -> get ("C|" ^ dec_of_n bits ^ "." ^ dec_of_n re ^ "." ^ dec_of_n im));
    lf_string = (fun f s -> get ("S|" ^ hex_of_bytes s));
    lf_base64 = (fun s -> get ("B|" ^ hex_of_bytes s));
    lf_type_name = (fun t -> get ("N|" ^ ty_to_string t)) }

(* C09 only needs the verdict: no text is looked up, showTimeInJS is assumed not to panic *)
let dummy_leaves = { (leaves_of (Hashtbl.create 1)) with lf_time_js = (fun _ -> Some []) }

let outcome_s (o : outcome) : string =
  match o with OOk -> "accept" | OErr -> "reject" | OPanic -> "panic" | _ -> "stuck"

let handle (f : string list) : string =
  match f with
  | ["static"; ctx; ty] -> outcome_s (static_ok (n_of_dec ctx) (ty_of_string ty))
  | ["show"; ctx; url; conv; ty; v] ->
    let t = ty_of_string ty and x = val_of_string v in
    if not (closedb O t && has_typeb [] t x) then "illtyped"
    else (match show_any dummy_leaves (conv = "1") (n_of_dec ctx) (url = "1") t x with
      | ROk _ -> "ok" | RCannotShow -> "cannotshow" | RPanic -> "panic" | RStuck -> "stuck")
  | ["render"; fn; ty; v; orc] ->
    let f = if fn = "JS" then FJS else FJSON in
    missing := [];
    let l = concrete (leaves_of (parse_oracles orc)) in
    let r = (match show_top l f (ty_of_string ty) (val_of_string v) with
      | ROk b -> "ok:" ^ hex_of_bytes b | RCannotShow -> "cannotshow" | RPanic -> "panic" | RStuck -> "stuck") in
    (* a text that is looked up but absent is the empty text: the strict evaluation of the extracted
       model also looks up texts of fields that end up omitted, so absence is not an error *)
    r
  | ["spec"; fn; ty; v; orc] ->
    let f = if fn = "JS" then FJS else FJSON in
    missing := [];
    (match json_of_top (leaves_of (parse_oracles orc)) f (ty_of_string ty) (val_of_string v) with
     | Some j -> "ok:" ^ hex_of_bytes (json_print j)
     | None -> "none")
  | _ -> "driver-error:unknown-command"

let () = main_loop handle
