(* model driver for engine `initorder`.  A package is written
   vars|funcs with items id:ref,ref separated by ';' *)
let items (s : string) : (n * n list) list =
  if s = "" then [] else
  List.map (fun it ->
    match String.split_on_char ':' it with
    | [id; refs] ->
      (n_of_int (int_of_string id),
       if refs = "" then [] else List.map (fun r -> n_of_int (int_of_string r)) (String.split_on_char ',' refs))
    | _ -> failwith "item") (String.split_on_char ';' s)

let parse (s : string) =
  match String.split_on_char '|' s with
  | [v; f] -> { vars = items v; funcs = items f }
  | _ -> failwith "pkg"

let show l = String.concat "," (List.map (fun x -> string_of_int (int_of_n x)) l)

let pure_funcs p =
  List.for_all (fun (_, refs) ->
    List.for_all (fun r ->
      if List.exists (fun (f, _) -> f = r) p.funcs then fdeps p (nat_of_int (List.length p.funcs)) r = [] else true) refs) p.vars

let handle (f : string list) : string =
  match f with
  | ["sc_order"; s] -> "ok:" ^ show (sc_order (parse s))
  | ["go_order"; s] -> "ok:" ^ show (go_order (parse s))
  | ["pure"; s] -> "ok:" ^ bool_s (pure_funcs (parse s))
  | _ -> "driver-error:unknown-command"

let () = main_loop handle
