(* model driver for engine `esc`: escapers (chunk lists), reference decoders, reference scanners *)
let chunks_s (cs : n list list) : string =
  String.concat "." (List.map (fun c -> match c with [] -> "-" | _ -> hex_of_bytes c) cs)
let ok_chunks cs = "ok:" ^ chunks_s cs
let ochunks o = match o with Some cs -> ok_chunks cs | None -> "panic"
let flag c = (c = 't')

(* fn is NAME, NAME.FLAGS or either followed by #enc (the injective byte encoding of the chunk list) *)
let escaper (name : string) (s : n list) : n list list option =
  let base, flags =
    match String.index_opt name '.' with
    | Some i -> String.sub name 0 i, String.sub name (i + 1) (String.length name - i - 1)
    | None -> name, "" in
  match base with
  | "htmlEscape" -> Some (htmlEscape s)
  | "htmlNoEntitiesEscape" -> Some (htmlNoEntitiesEscape s)
  | "attributeEscape" -> Some (attributeEscape (flag flags.[0]) (flag flags.[1]) s)
  | "cssStringEscape" -> Some (cssStringEscape s)
  | "jsStringEscape" -> jsStringEscape s
  | "jsonStringEscape" -> jsonStringEscape s
  | "queryEscape" -> Some (queryEscape s)
  | "pathEscape" -> Some (pathEscape (flag flags.[0]) s)
  | _ -> failwith "unknown-escaper"

let handle (f : string list) : string =
  match f with
  | ["html_decode"; h] -> "ok:" ^ hex_of_bytes (html_decode (bytes_of_hex h))
  | ["js_decode"; h] -> "ok:" ^ hex_of_bytes (js_decode (bytes_of_hex h))
  | ["json_decode"; h] -> "ok:" ^ hex_of_bytes (json_decode (bytes_of_hex h))
  | ["css_decode"; h] -> "ok:" ^ hex_of_bytes (css_decode (bytes_of_hex h))
  | ["pct_decode"; h] -> "ok:" ^ hex_of_bytes (pct_decode (bytes_of_hex h))
  | ["query_decode"; h] -> "ok:" ^ hex_of_bytes (query_decode (bytes_of_hex h))
  | ["html_text_ok"; h] -> bool_s (html_text_ok (bytes_of_hex h))
  | ["attr_dq_ok"; h] -> bool_s (attr_dq_ok (bytes_of_hex h))
  | ["attr_sq_ok"; h] -> bool_s (attr_sq_ok (bytes_of_hex h))
  | ["attr_unq_ok"; h] -> bool_s (attr_unq_ok (bytes_of_hex h))
  | ["attr_unq_first_ok"; h] -> bool_s (attr_unq_first_ok (bytes_of_hex h))
  | ["js_string_ok"; h] -> bool_s (js_string_ok (bytes_of_hex h))
  | ["json_string_ok"; h] -> bool_s (json_string_ok (bytes_of_hex h))
  | ["css_string_ok"; h] -> bool_s (css_string_ok (bytes_of_hex h))
  | ["query_ok"; h] -> bool_s (query_ok (bytes_of_hex h))
  | [fn; h] ->
    let n = String.length fn in
    if n > 4 && String.sub fn (n - 4) 4 = "#enc" then
      (match escaper (String.sub fn 0 (n - 4)) (bytes_of_hex h) with
       | Some cs -> "ok:" ^ hex_of_bytes (enc_chunks cs)
       | None -> "panic")
    else ochunks (escaper fn (bytes_of_hex h))
  | _ -> "driver-error:unknown-command"

let () = main_loop handle
