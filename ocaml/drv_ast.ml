(* model driver for engine `ast`: trees in the line protocol's syntax
     tree ::= "(" id kind item* ")"      item ::= "s" field hex | "c" field "[" tree* "]"
   kinds and fields by name (resolved through the generated schema). *)
let bytes_of_string (s : string) : n list =
  List.init (String.length s) (fun i -> n_of_int (Char.code s.[i]))
let string_of_bytes (l : n list) : string =
  String.concat "" (List.map (fun x -> String.make 1 (Char.chr (int_of_n x))) l)

exception Bad of string

let parse_tree (toks : string array) : tree =
  let pos = ref 0 in
  let peek () = if !pos < Array.length toks then toks.(!pos) else raise (Bad "eof") in
  let next () = let t = peek () in incr pos; t in
  let expect s = let t = next () in if t <> s then raise (Bad ("expected " ^ s ^ " got " ^ t)) in
  let rec tree () =
    expect "(";
    let id = int_of_string (next ()) in
    let kname = next () in
    let d = match kind_by_name (bytes_of_string kname) with Some d -> d | None -> raise (Bad ("unknown kind " ^ kname)) in
    let scal = ref [] and kids = ref [] in
    let rec items () =
      match next () with
      | ")" -> ()
      | "s" ->
        let fname = next () in
        let v = next () in
        let f = match field_by_name d (bytes_of_string fname) with Some f -> f | None -> raise (Bad ("unknown field " ^ kname ^ "." ^ fname)) in
        if int_of_n f.f_class <> 0 then raise (Bad ("field " ^ kname ^ "." ^ fname ^ " is not a scalar in the schema"));
        scal := (f.f_id, (if v = "-" then [] else bytes_of_hex v)) :: !scal;
        items ()
      | "c" ->
        let fname = next () in
        let f = match field_by_name d (bytes_of_string fname) with Some f -> f | None -> raise (Bad ("unknown field " ^ kname ^ "." ^ fname)) in
        if int_of_n f.f_class = 0 then raise (Bad ("field " ^ kname ^ "." ^ fname ^ " is a scalar in the schema"));
        expect "[";
        let cs = ref [] in
        while peek () <> "]" do cs := tree () :: !cs done;
        expect "]";
        kids := (f.f_id, List.rev !cs) :: !kids;
        items ()
      | t -> raise (Bad ("unexpected " ^ t))
    in
    items ();
    T (n_of_int id, d.k_id, List.rev !scal, List.rev !kids)
  in
  let t = tree () in
  if !pos <> Array.length toks then raise (Bad "trailing tokens");
  t

let kind_name (k : n) : string =
  match ast_decl_of k with Some d -> string_of_bytes d.k_name | None -> "?" ^ string_of_int (int_of_n k)
let field_name (k : n) (f : n) : string =
  match ast_field_of k f with Some x -> string_of_bytes x.f_name | None -> "?" ^ string_of_int (int_of_n f)

(* identities above base are renumbered by first occurrence in pre-order *)
let print_tree (base : int) (t : tree) : string =
  let b = Buffer.create 1024 in
  let ren = Hashtbl.create 64 in
  let next = ref (base + 1) in
  let idof i =
    if i <= base then i
    else match Hashtbl.find_opt ren i with
      | Some j -> j
      | None -> let j = !next in incr next; Hashtbl.add ren i j; j in
  let rec go (T (i, k, sc, kd)) =
    Buffer.add_string b "( ";
    Buffer.add_string b (string_of_int (idof (int_of_n i)));
    Buffer.add_char b ' ';
    Buffer.add_string b (kind_name k);
    List.iter (fun (f, v) ->
      Buffer.add_string b " s "; Buffer.add_string b (field_name k f); Buffer.add_char b ' ';
      Buffer.add_string b (if v = [] then "-" else hex_of_bytes v)) sc;
    List.iter (fun (f, cs) ->
      Buffer.add_string b " c "; Buffer.add_string b (field_name k f); Buffer.add_string b " [";
      List.iter (fun c -> Buffer.add_char b ' '; go c) cs;
      Buffer.add_string b " ]") kd;
    Buffer.add_string b " )" in
  go t;
  Buffer.contents b

let toks_of (s : string) : string array =
  Array.of_list (List.filter (fun x -> x <> "") (String.split_on_char ' ' s))

(* C27: expressions in prefix notation: A p i | U p op e | B p op l r *)
let parse_expr (toks : string array) : expr =
  let pos = ref 0 in
  let next () = if !pos < Array.length toks then (let t = toks.(!pos) in incr pos; t) else raise (Bad "eof") in
  let rec go () =
    match next () with
    | "A" -> let p = int_of_string (next ()) in let i = int_of_string (next ()) in Atom (nat_of_int p, n_of_int i)
    | "U" -> let p = int_of_string (next ()) in let op = int_of_string (next ()) in let x = go () in Un (nat_of_int p, n_of_int op, x)
    | "B" -> let p = int_of_string (next ()) in let op = int_of_string (next ()) in let l = go () in let r = go () in
      Bin (nat_of_int p, n_of_int op, l, r)
    | t -> raise (Bad ("unexpected " ^ t)) in
  let e = go () in
  if !pos <> Array.length toks then raise (Bad "trailing tokens");
  e

let rec print_expr (e : expr) : string =
  match e with
  | Atom (p, a) -> Printf.sprintf "A %d %d" (int_of_nat p) (int_of_n a)
  | Un (p, op, x) -> Printf.sprintf "U %d %d %s" (int_of_nat p) (int_of_n op) (print_expr x)
  | Bin (p, op, l, r) -> Printf.sprintf "B %d %d %s %s" (int_of_nat p) (int_of_n op) (print_expr l) (print_expr r)

let handle (f : string list) : string =
  match f with
  | ["clone"; ctx; ts] ->
    (try
      let t = parse_tree (toks_of ts) in
      let base = int_of_n (max_id (ids t)) in
      (match ast_clone (n_of_int (int_of_string ctx)) t with
       | Ok (_, t') -> "ok:" ^ print_tree base t'
       | Panic -> "panic"
       | Untranslated -> "untranslated"
       | Fuel -> "out-of-fuel")
    with Bad m -> "driver-error:" ^ m)
  | ["walk"; prune; ts] ->
    (try
      let t = parse_tree (toks_of ts) in
      let pk = List.filter (fun x -> x <> "") (String.split_on_char ',' prune) in
      let pk = List.map (fun nm -> match kind_by_name (bytes_of_string nm) with Some d -> d.k_id | None -> raise (Bad ("unknown kind " ^ nm))) pk in
      (match ast_walk pk t with
       | Ok evs -> "ok:" ^ String.concat " " (List.map (function Enter i -> string_of_int (int_of_n i) | EnterNil -> "N" | Leave -> ".") evs)
       | Panic -> "panic"
       | Untranslated -> "untranslated"
       | Fuel -> "out-of-fuel")
    with Bad m -> "driver-error:" ^ m)
  | ["hyp"; ts] ->
    (try
      let t = parse_tree (toks_of ts) in
      if ast_hyp t then "ok" else "hypothesis-fails"
    with Bad m -> "driver-error:" ^ m)
  | ["c27print"; es; atoms] ->
    (try
      let e = parse_expr (toks_of es) in
      let al = List.mapi (fun i h -> (n_of_int i, (if h = "-" then [] else bytes_of_hex h)))
                 (List.filter (fun x -> x <> "") (String.split_on_char ',' atoms)) in
      if not (c27_wf e) then "not-wf"
      else (match c27_print_string al e with Some s -> "ok:" ^ hex_of_bytes s | None -> "panic")
    with Bad m -> "driver-error:" ^ m)
  | ["c27parse"; es] ->
    (try
      let e = parse_expr (toks_of es) in
      if not (c27_wf e) then "not-wf"
      else (match c27_roundtrip e with
            | Some (Some e') -> "ok:" ^ print_expr e'
            | Some None -> "syntax-error"
            | None -> "panic")
    with Bad m -> "driver-error:" ^ m)
  | ["c27tokens"; ts] ->
    (try
      let toks = List.map (fun t ->
        if t = "(" then TLP else if t = ")" then TRP
        else if String.length t > 1 && t.[0] = 'a' then TAtom (n_of_int (int_of_string (String.sub t 1 (String.length t - 1))))
        else if String.length t > 1 && t.[0] = 's' then TSym (bytes_of_hex (String.sub t 1 (String.length t - 1)))
        else raise (Bad ("bad token " ^ t))) (List.filter (fun x -> x <> "") (String.split_on_char ' ' ts)) in
      (match c27_parse toks with Some e -> "ok:" ^ print_expr e | None -> "syntax-error")
    with Bad m -> "driver-error:" ^ m)
  | _ -> "driver-error:unknown-command"

let () = main_loop handle
