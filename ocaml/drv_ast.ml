(* model driver for engine `ast`: trees in the line protocol's syntax
     tree ::= "(" id kind item* ")"      item ::= "s" field hex | "c" field "[" tree* "]"
   kinds and fields by name (resolved through the generated schema). *)
let bytes_of_string (s : string) : n list =
  List.init (String.length s) (fun i -> n_of_int (Char.code s.[i]))
let string_of_bytes (l : n list) : string =
  String.concat "" (List.map (fun x -> String.make 1 (Char.chr (int_of_n x))) l)

exception Bad of string

let parse_tree (toks : string array) : tree =
  let pos = ref 0 in
  let peek () = if !pos < Array.length toks then toks.(!pos) else raise (Bad "eof") in
  let next () = let t = peek () in incr pos; t in
  let expect s = let t = next () in if t <> s then raise (Bad ("expected " ^ s ^ " got " ^ t)) in
  let rec tree () =
    expect "(";
    let id = int_of_string (next ()) in
    let kname = next () in
    let d = match kind_by_name (bytes_of_string kname) with Some d -> d | None -> raise (Bad ("unknown kind " ^ kname)) in
    let scal = ref [] and kids = ref [] in
    let rec items () =
      match next () with
      | ")" -> ()
      | "s" ->
        let fname = next () in
        let v = next () in
        let f = match field_by_name d (bytes_of_string fname) with Some f -> f | None -> raise (Bad ("unknown field " ^ kname ^ "." ^ fname)) in
        if int_of_n f.f_class <> 0 then raise (Bad ("field " ^ kname ^ "." ^ fname ^ " is not a scalar in the schema"));
        scal := (f.f_id, (if v = "-" then [] else bytes_of_hex v)) :: !scal;
        items ()
      | "c" ->
        let fname = next () in
        let f = match field_by_name d (bytes_of_string fname) with Some f -> f | None -> raise (Bad ("unknown field " ^ kname ^ "." ^ fname)) in
        if int_of_n f.f_class = 0 then raise (Bad ("field " ^ kname ^ "." ^ fname ^ " is a scalar in the schema"));
        expect "[";
        let cs = ref [] in
        while peek () <> "]" do cs := tree () :: !cs done;
        expect "]";
        kids := (f.f_id, List.rev !cs) :: !kids;
        items ()
      | t -> raise (Bad ("unexpected " ^ t))
    in
    items ();
    T (n_of_int id, d.k_id, List.rev !scal, List.rev !kids)
  in
  let t = tree () in
  if !pos <> Array.length toks then raise (Bad "trailing tokens");
  t

let kind_name (k : n) : string =
  match ast_decl_of k with Some d -> string_of_bytes d.k_name | None -> "?" ^ string_of_int (int_of_n k)
let field_name (k : n) (f : n) : string =
  match ast_field_of k f with Some x -> string_of_bytes x.f_name | None -> "?" ^ string_of_int (int_of_n f)

(* identities above base are renumbered by first occurrence in pre-order *)
let print_tree (base : int) (t : tree) : string =
  let b = Buffer.create 1024 in
  let ren = Hashtbl.create 64 in
  let next = ref (base + 1) in
  let idof i =
    if i <= base then i
    else match Hashtbl.find_opt ren i with
      | Some j -> j
      | None -> let j = !next in incr next; Hashtbl.add ren i j; j in
  let rec go (T (i, k, sc, kd)) =
    Buffer.add_string b "( ";
    Buffer.add_string b (string_of_int (idof (int_of_n i)));
    Buffer.add_char b ' ';
    Buffer.add_string b (kind_name k);
    List.iter (fun (f, v) ->
      Buffer.add_string b " s "; Buffer.add_string b (field_name k f); Buffer.add_char b ' ';
      Buffer.add_string b (if v = [] then "-" else hex_of_bytes v)) sc;
    List.iter (fun (f, cs) ->
      Buffer.add_string b " c "; Buffer.add_string b (field_name k f); Buffer.add_string b " [";
      List.iter (fun c -> Buffer.add_char b ' '; go c) cs;
      Buffer.add_string b " ]") kd;
    Buffer.add_string b " )" in
  go t;
  Buffer.contents b

let toks_of (s : string) : string array =
  Array.of_list (List.filter (fun x -> x <> "") (String.split_on_char ' ' s))

(* C27: expressions in prefix notation: A p i | U p op e | B p op l r *)
let parse_expr (toks : string array) : expr =
  let pos = ref 0 in
  let next () = if !pos < Array.length toks then (let t = toks.(!pos) in incr pos; t) else raise (Bad "eof") in
  let rec go () =
    match next () with
    | "A" -> let p = int_of_string (next ()) in let i = int_of_string (next ()) in Atom (nat_of_int p, n_of_int i)
    | "U" -> let p = int_of_string (next ()) in let op = int_of_string (next ()) in let x = go () in Un (nat_of_int p, n_of_int op, x)
    | "B" -> let p = int_of_string (next ()) in let op = int_of_string (next ()) in let l = go () in let r = go () in
      Bin (nat_of_int p, n_of_int op, l, r)
    | t -> raise (Bad ("unexpected " ^ t)) in
  let e = go () in
  if !pos <> Array.length toks then raise (Bad "trailing tokens");
  e

let rec print_expr (e : expr) : string =
  match e with
  | Atom (p, a) -> Printf.sprintf "A %d %d" (int_of_nat p) (int_of_n a)
  | Un (p, op, x) -> Printf.sprintf "U %d %d %s" (int_of_nat p) (int_of_n op) (print_expr x)
  | Bin (p, op, l, r) -> Printf.sprintf "B %d %d %s %s" (int_of_nat p) (int_of_n op) (print_expr l) (print_expr r)


(* ---- C27 over the primary-expression grammar: expressions in prefix notation
     I p hex | L p k hex | U p op e | B p op e e | C p v n e e*n | X p e e
   | S p full e oe oe oe | D p hex e | A p e oe | K p oe n (oe e)*n | M p oe e
   | s p e | a p oe e | c p dir e | F p macro v np (on oe)*np nr (on oe)*nr
   | T p nf (nn hex*nn e hex)*nf | N p | d p e e | R p hex | f p
   oe ::= ~ | + e     on ::= ~ | + hex     hex: - for the empty string ---- *)
let hx (h : string) : n list = if h = "-" then [] else bytes_of_hex h
let xh (l : n list) : string = if l = [] then "-" else hex_of_bytes l

let parse_ex (toks : string array) : ex =
  let pos = ref 0 in
  let next () = if !pos < Array.length toks then (let t = toks.(!pos) in incr pos; t) else raise (Bad "eof") in
  let num () = int_of_string (next ()) in
  let nt () = nat_of_int (num ()) in
  let nn () = n_of_int (num ()) in
  let bl () = (num ()) <> 0 in
  let rec go () : ex =
    match next () with
    | "I" -> let p = nt () in XIdent (p, hx (next ()))
    | "L" -> let p = nt () in let k = nn () in XLit (p, k, hx (next ()))
    | "U" -> let p = nt () in let op = nn () in XUn (p, op, go ())
    | "B" -> let p = nt () in let op = nn () in let l = go () in let r = go () in XBin (p, op, l, r)
    | "C" -> let p = nt () in let v = bl () in let n = num () in let f = go () in
      let args = List.init n (fun _ -> ()) |> List.map (fun () -> go ()) in XCall (p, f, args, v)
    | "X" -> let p = nt () in let x = go () in let i = go () in XIndex (p, x, i)
    | "S" -> let p = nt () in let full = bl () in let x = go () in let a = opt () in let b = opt () in let c = opt () in
      XSlicing (p, x, a, b, c, full)
    | "D" -> let p = nt () in let name = hx (next ()) in XSel (p, go (), name)
    | "A" -> let p = nt () in let x = go () in let t = opt () in XTypeAssert (p, x, t)
    | "K" -> let p = nt () in let t = opt () in let n = num () in
      let kvs = List.init n (fun _ -> ()) |> List.map (fun () -> let k = opt () in let v = go () in (k, v)) in
      XCompLit (p, t, kvs)
    | "M" -> let p = nt () in let k = opt () in let v = go () in XMap (p, k, v)
    | "s" -> let p = nt () in XSlice (p, go ())
    | "a" -> let p = nt () in let l = opt () in let e = go () in XArray (p, l, e)
    | "c" -> let p = nt () in let d = nn () in XChan (p, d, go ())
    | "F" -> let p = nt () in let m = bl () in let v = bl () in
      let ps = params () in let rs = params () in XFunc (p, m, ps, rs, v)
    | "T" -> let p = nt () in let nf = num () in
      let fs = List.init nf (fun _ -> ()) |> List.map (fun () ->
        let k = num () in
        let names = List.init k (fun _ -> ()) |> List.map (fun () -> hx (next ())) in
        let t = go () in let tag = hx (next ()) in ((names, t), tag)) in
      XStruct (p, fs)
    | "N" -> XInterface (nt ())
    | "d" -> let p = nt () in let l = go () in let r = go () in XDefault (p, l, r)
    | "R" -> let p = nt () in XRender (p, hx (next ()))
    | "f" -> XFuncLit (nt ())
    | t -> raise (Bad ("unexpected " ^ t))
  and opt () : ex option =
    match next () with "~" -> None | "+" -> Some (go ()) | t -> raise (Bad ("bad option " ^ t))
  and params () =
    let n = num () in
    List.init n (fun _ -> ()) |> List.map (fun () ->
      let name = (match next () with "~" -> None | "+" -> Some (hx (next ())) | t -> raise (Bad ("bad name " ^ t))) in
      let t = opt () in (name, t))
  in
  let e = go () in
  if !pos <> Array.length toks then raise (Bad "trailing tokens");
  e

let rec print_ex (e : ex) : string =
  let i = int_of_nat and n = int_of_n in
  let b x = if x then 1 else 0 in
  let opt o = match o with None -> "~" | Some x -> "+ " ^ print_ex x in
  let params l = String.concat " " (string_of_int (List.length l) ::
    List.map (fun (name, t) -> (match name with None -> "~" | Some a -> "+ " ^ xh a) ^ " " ^ opt t) l) in
  match e with
  | XIdent (p, a) -> Printf.sprintf "I %d %s" (i p) (xh a)
  | XLit (p, k, s) -> Printf.sprintf "L %d %d %s" (i p) (n k) (xh s)
  | XUn (p, op, x) -> Printf.sprintf "U %d %d %s" (i p) (n op) (print_ex x)
  | XBin (p, op, l, r) -> Printf.sprintf "B %d %d %s %s" (i p) (n op) (print_ex l) (print_ex r)
  | XCall (p, f, args, v) ->
    String.concat " " (Printf.sprintf "C %d %d %d %s" (i p) (b v) (List.length args) (print_ex f) :: List.map print_ex args)
  | XIndex (p, x, ix) -> Printf.sprintf "X %d %s %s" (i p) (print_ex x) (print_ex ix)
  | XSlicing (p, x, lo, hi, mx, full) -> Printf.sprintf "S %d %d %s %s %s %s" (i p) (b full) (print_ex x) (opt lo) (opt hi) (opt mx)
  | XSel (p, x, name) -> Printf.sprintf "D %d %s %s" (i p) (xh name) (print_ex x)
  | XTypeAssert (p, x, t) -> Printf.sprintf "A %d %s %s" (i p) (print_ex x) (opt t)
  | XCompLit (p, t, kvs) ->
    String.concat " " (Printf.sprintf "K %d %s %d" (i p) (opt t) (List.length kvs) ::
                       List.map (fun (k, v) -> opt k ^ " " ^ print_ex v) kvs)
  | XMap (p, k, v) -> Printf.sprintf "M %d %s %s" (i p) (opt k) (print_ex v)
  | XSlice (p, x) -> Printf.sprintf "s %d %s" (i p) (print_ex x)
  | XArray (p, l, x) -> Printf.sprintf "a %d %s %s" (i p) (opt l) (print_ex x)
  | XChan (p, d, x) -> Printf.sprintf "c %d %d %s" (i p) (n d) (print_ex x)
  | XFunc (p, m, ps, rs, v) -> Printf.sprintf "F %d %d %d %s %s" (i p) (b m) (b v) (params ps) (params rs)
  | XStruct (p, fs) ->
    String.concat " " (Printf.sprintf "T %d %d" (i p) (List.length fs) ::
      List.map (fun ((names, t), tag) ->
        String.concat " " (string_of_int (List.length names) :: List.map xh names @ [print_ex t; xh tag])) fs)
  | XInterface p -> Printf.sprintf "N %d" (i p)
  | XDefault (p, l, r) -> Printf.sprintf "d %d %s %s" (i p) (print_ex l) (print_ex r)
  | XRender (p, s) -> Printf.sprintf "R %d %s" (i p) (xh s)
  | XFuncLit p -> Printf.sprintf "f %d" (i p)

(* tokens: i:hex l:k:hex s:hex k:name o:hex ( ) [ ] { } . , : ; ... *)
let kw_of_string (s : string) : kwd =
  match s with
  | "map" -> WMap | "struct" -> WStruct | "interface" -> WInterface | "func" -> WFunc | "macro" -> WMacro
  | "chan" -> WChan | "type" -> WType | "default" -> WDefault | "render" -> WRender
  | _ -> raise (Bad ("unknown keyword " ^ s))
let string_of_kw (w : kwd) : string =
  match w with
  | WMap -> "map" | WStruct -> "struct" | WInterface -> "interface" | WFunc -> "func" | WMacro -> "macro"
  | WChan -> "chan" | WType -> "type" | WDefault -> "default" | WRender -> "render"
let tk_of_string (t : string) : tk =
  match t with
  | "(" -> KLP | ")" -> KRP | "[" -> KLBrack | "]" -> KRBrack | "{" -> KLBrace | "}" -> KRBrace
  | "." -> KPeriod | "," -> KComma | ":" -> KColon | ";" -> KSemi | "..." -> KEllipsis
  | _ ->
    let rest k = String.sub t k (String.length t - k) in
    if String.length t >= 2 && t.[1] = ':' then
      (match t.[0] with
       | 'i' -> KIdent (hx (rest 2))
       | 's' -> KSym (hx (rest 2))
       | 'k' -> KKw (kw_of_string (rest 2))
       | 'l' ->
         (match String.split_on_char ':' t with
          | [_; k; h] -> KLit (n_of_int (int_of_string k), hx h)
          | _ -> raise (Bad ("bad literal token " ^ t)))
       | _ -> raise (Bad ("bad token " ^ t)))
    else raise (Bad ("bad token " ^ t))
let string_of_tk (t : tk) : string =
  match t with
  | KLP -> "(" | KRP -> ")" | KLBrack -> "[" | KRBrack -> "]" | KLBrace -> "{" | KRBrace -> "}"
  | KPeriod -> "." | KComma -> "," | KColon -> ":" | KSemi -> ";" | KEllipsis -> "..."
  | KIdent s -> "i:" ^ xh s | KSym s -> "s:" ^ xh s
  | KKw w -> "k:" ^ string_of_kw w
  | KLit (k, s) -> Printf.sprintf "l:%d:%s" (int_of_n k) (xh s)
let tks_of_line (s : string) : tk list =
  List.map tk_of_string (List.filter (fun x -> x <> "") (String.split_on_char ' ' s))
let flag (s : string) (i : int) : bool = String.length s > i && s.[i] = '1'

let print_rt (r : (ex option * tk list) xres) : string =
  match r with
  | ROk (Some e, rest) -> Printf.sprintf "ok:%d:%s" (List.length rest) (print_ex e)
  | ROk (None, rest) -> Printf.sprintf "nil:%d" (List.length rest)
  | RErr -> "syntax-error"
  | RCrash -> "crash"
  | RFuel -> "out-of-fuel"
  | RUnsup -> "unsupported"

let handle (f : string list) : string =
  match f with
  | ["clone"; ctx; ts] ->
    (try
      let t = parse_tree (toks_of ts) in
      let base = int_of_n (max_id (ids t)) in
      (match ast_clone (n_of_int (int_of_string ctx)) t with
       | Ok (_, t') -> "ok:" ^ print_tree base t'
       | Panic -> "panic"
       | Untranslated -> "untranslated"
       | Fuel -> "out-of-fuel")
    with Bad m -> "driver-error:" ^ m)
  | ["walk"; prune; ts] ->
    (try
      let t = parse_tree (toks_of ts) in
      let pk = List.filter (fun x -> x <> "") (String.split_on_char ',' prune) in
      let pk = List.map (fun nm -> match kind_by_name (bytes_of_string nm) with Some d -> d.k_id | None -> raise (Bad ("unknown kind " ^ nm))) pk in
      (match ast_walk pk t with
       | Ok evs -> "ok:" ^ String.concat " " (List.map (function Enter i -> string_of_int (int_of_n i) | EnterNil -> "N" | Leave -> ".") evs)
       | Panic -> "panic"
       | Untranslated -> "untranslated"
       | Fuel -> "out-of-fuel")
    with Bad m -> "driver-error:" ^ m)
  | ["hyp"; ts] ->
    (try
      let t = parse_tree (toks_of ts) in
      if ast_hyp t then "ok" else "hypothesis-fails"
    with Bad m -> "driver-error:" ^ m)
  | ["c27print"; es; atoms] ->
    (try
      let e = parse_expr (toks_of es) in
      let al = List.mapi (fun i h -> (n_of_int i, (if h = "-" then [] else bytes_of_hex h)))
                 (List.filter (fun x -> x <> "") (String.split_on_char ',' atoms)) in
      if not (c27_wf e) then "not-wf"
      else (match c27_print_string al e with Some s -> "ok:" ^ hex_of_bytes s | None -> "panic")
    with Bad m -> "driver-error:" ^ m)
  | ["c27parse"; es] ->
    (try
      let e = parse_expr (toks_of es) in
      if not (c27_wf e) then "not-wf"
      else (match c27_roundtrip e with
            | Some (Some e') -> "ok:" ^ print_expr e'
            | Some None -> "syntax-error"
            | None -> "panic")
    with Bad m -> "driver-error:" ^ m)
  | ["c27tokens"; ts] ->
    (try
      let toks = List.map (fun t ->
        if t = "(" then TLP else if t = ")" then TRP
        else if String.length t > 1 && t.[0] = 'a' then TAtom (n_of_int (int_of_string (String.sub t 1 (String.length t - 1))))
        else if String.length t > 1 && t.[0] = 's' then TSym (bytes_of_hex (String.sub t 1 (String.length t - 1)))
        else raise (Bad ("bad token " ^ t))) (List.filter (fun x -> x <> "") (String.split_on_char ' ' ts)) in
      (match c27_parse toks with Some e -> "ok:" ^ print_expr e | None -> "syntax-error")
    with Bad m -> "driver-error:" ^ m)
  | ["xshow"; fl; es] ->
    (try
      let e = parse_ex (toks_of es) in
      (match x_show (flag fl 0) e with Some s -> "ok:" ^ xh s | None -> "panic")
    with Bad m -> "driver-error:" ^ m)
  | ["xtoks"; fl; es] ->
    (try
      let e = parse_ex (toks_of es) in
      (match x_pp (flag fl 0) e with
       | None -> "panic"
       | Some ps ->
         (match x_relex (flag fl 1) ps with
          | LexErr -> "lex-error"
          | LexUnsup -> "unsupported"
          | LexOk ts -> "ok:" ^ String.concat " " (List.map string_of_tk ts)))
    with Bad m -> "driver-error:" ^ m)
  | ["xparse"; fl; ts] ->
    (* fl: template, canBeSwitchGuard, canElideType, mustBeType, nextIsBlockBrace *)
    (try
      let toks = tks_of_line ts in
      let flags = { fl_guard = flag fl 1; fl_elide = flag fl 2; fl_type = flag fl 3; fl_block = flag fl 4 } in
      print_rt (x_pexpr (flag fl 0) (fuel_of toks) flags toks)
    with Bad m -> "driver-error:" ^ m)
  | ["xround"; fl; es; suffix] ->
    (* fl: expanded, template, guard; suffix: the tokens that follow the expression in the source *)
    (try
      let e = parse_ex (toks_of es) in
      (match x_roundtrip (flag fl 0) (flag fl 1) (flag fl 2) (tks_of_line suffix) e with
       | RtPanic -> "panic"
       | RtLex -> "lex-error"
       | RtUnsup -> "unsupported"
       | RtRes r -> print_rt r)
    with Bad m -> "driver-error:" ^ m)
  | ["xclaim"; fl; es; suffix; realok] ->
    (* the theorem through the tie: a printable expression must have survived the real round trip *)
    (try
      let e = parse_ex (toks_of es) in
      let nxt = (match tks_of_line suffix with [] -> None | t :: _ -> Some t) in
      if x_printable (flag fl 0) (flag fl 1) (flag fl 2) nxt e && realok <> "1" then "printable-but-the-real-round-trip-fails"
      else "ok"
    with Bad m -> "driver-error:" ^ m)
  | ["xprintable"; fl; es; suffix] ->
    (try
      let e = parse_ex (toks_of es) in
      let nxt = (match tks_of_line suffix with [] -> None | t :: _ -> Some t) in
      Printf.sprintf "%d%d" (if x_printable (flag fl 0) (flag fl 1) (flag fl 2) nxt e then 1 else 0)
        (if x_printable_type (flag fl 0) (flag fl 1) nxt e then 1 else 0)
    with Bad m -> "driver-error:" ^ m)
  | _ -> "driver-error:unknown-command"

let () = main_loop handle
