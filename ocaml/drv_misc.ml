(* model driver for engine `misc` *)
let z_of_int (i : int) : z = if i = 0 then Z0 else if i > 0 then Zpos (pos_of_int i) else Zneg (pos_of_int (- i))

(* unicode table: "rune:flags:upper:lower;..."  flags: 1 upper, 2 lower, 4 digit, 8 letter, 16 space *)
let parse_uni (s : string) : unicode =
  let tbl = Hashtbl.create 16 in
  if s <> "" && s <> "-" then
    List.iter (fun e ->
      match String.split_on_char ':' e with
      | [r; f; u; l] -> Hashtbl.replace tbl (int_of_string r) (int_of_string f, int_of_string u, int_of_string l)
      | _ -> failwith "bad unicode entry") (String.split_on_char ';' s);
  let get r = try Hashtbl.find tbl (int_of_n r) with Not_found -> (0, int_of_n r, int_of_n r) in
  let flag b r = let (f, _, _) = get r in f land b <> 0 in
  { u_upper = flag 1; u_lower = flag 2; u_digit = flag 4; u_letter = flag 8; u_space = flag 16;
    u_to_upper = (fun r -> let (_, u, _) = get r in n_of_int u);
    u_to_lower = (fun r -> let (_, _, l) = get r in n_of_int l) }

let optbytes = function Some o -> "ok:" ^ hex_of_bytes o | None -> "panic"

(* ---- C19: configuration and program of the resolution model ---- *)
let split_ne c s = if s = "" || s = "-" then [] else String.split_on_char c s
let num s = n_of_int (int_of_string s)

let parse_decls s = List.map (fun d -> match String.split_on_char '=' d with
  | [k; v] -> (num k, num v) | _ -> failwith "bad decl") (split_ne ',' s)

(* an importer: members separated by '|', each a list of `path:name:decls` (a package) or `path:!` (an error);
   the members are combined by the model of native.CombinedImporter *)
let parse_answer (e : string) : int * ianswer =
  match String.split_on_char ':' e with
  | [p; "!"] -> (int_of_string p, AErr)
  | [p; "-"] -> (int_of_string p, ANone)
  | [p; nm; ds] -> (int_of_string p, APkg { p_name = num nm; p_decls = parse_decls ds })
  | _ -> failwith "bad importer entry"

let parse_member (s : string) : n -> ianswer =
  let tbl = List.map parse_answer (split_ne ';' s) in
  fun p -> (match List.assoc_opt (int_of_n p) tbl with Some a -> a | None -> ANone)

(* "none": no member; a member without answers is written "-" *)
let parse_members (s : string) : (n -> ianswer) list =
  if s = "none" then [] else List.map parse_member (String.split_on_char '|' s)

let parse_importer s : n -> ianswer = combined (parse_members s)

let parse_imports s = List.map (fun e -> match String.split_on_char ':' e with
  | [f; a; p] ->
    let form = (match f with "d" -> IDefault | "n" -> IName (num a) | "b" -> IBlank | "p" -> IDot | _ -> failwith "bad form") in
    (form, num p)
  | _ -> failwith "bad import") (split_ne ';' s)

let parse_body s : stmt list =
  let toks = ref (List.filter (fun t -> t <> "" && t <> "-") (String.split_on_char ' ' s)) in
  let next () = match !toks with t :: r -> toks := r; t | [] -> failwith "unexpected end of body" in
  let parse_ref () = match next () with
    | "i" -> RId (num (next ()))
    | "s" -> let p = num (next ()) in let x = num (next ()) in RSel (p, x)
    | _ -> failwith "bad ref" in
  let rec parse_list () : stmt list =
    match !toks with
    | [] -> []
    | "]" :: r -> toks := r; []
    | _ -> let st = parse_stmt () in st :: parse_list ()
  and parse_stmt () : stmt =
    match next () with
    | "c" -> SCall (parse_ref ())
    | "g" -> SGo (parse_ref ())
    | "d" -> SDefer (parse_ref ())
    | "b" -> let x = num (next ()) in
      (match next () with "[" -> SBlock (x, parse_list ()) | _ -> failwith "expected [")
    | t -> failwith ("bad statement " ^ t) in
  parse_list ()

let sort_uniq_ns (l : n list) = List.sort_uniq compare (List.map int_of_n l)
let ints l = String.concat "," (List.map string_of_int l)

let error_s (e : error) = match e with
  | ECannotFindPackage p -> "cfp:" ^ string_of_int (int_of_n p)
  | EImporterError p -> "imperr:" ^ string_of_int (int_of_n p)
  | EUndefined -> "undefined"
  | EGoNotAvailable -> "go"
  | ENotCallable -> "notcallable"
  | EPackageWithoutSelector -> "pkgnosel"
  | ERedeclared -> "redeclared"
  | EUnusedImport p -> "unused:" ^ string_of_int (int_of_n p)

let result_s (r : (outcome, error) sum) : string =
  match r with
  | Inl o -> "ok:" ^ ints (sort_uniq_ns o.o_natives) ^ "|" ^ ints (sort_uniq_ns o.o_asked) ^ "|"
             ^ (if int_of_n o.o_prints > 0 then "print" else "noprint")
  | Inr e -> "err:" ^ error_s e

(* one event of a history: G+x=id  G-x  M<i>@<answer>  B<allow><template>^imports^funcs^body *)
let parse_event (s : string) : event =
  let n = String.length s in
  if n >= 2 && s.[0] = 'G' && s.[1] = '+' then
    (match String.split_on_char '=' (String.sub s 2 (n - 2)) with
     | [x; id] -> EvEdit (EdGlobalSet (num x, num id))
     | _ -> failwith "bad global set")
  else if n >= 2 && s.[0] = 'G' && s.[1] = '-' then EvEdit (EdGlobalDel (num (String.sub s 2 (n - 2))))
  else if n >= 1 && s.[0] = 'M' then
    (match String.index_opt s '@' with
     | Some k ->
       let i = int_of_string (String.sub s 1 (k - 1)) in
       let (p, a) = parse_answer (String.sub s (k + 1) (n - k - 1)) in
       EvEdit (EdMemberSet (nat_of_int i, n_of_int p, a))
     | None -> failwith "bad member edit")
  else if n >= 4 && s.[0] = 'B' && s.[3] = '^' then
    (match String.split_on_char '^' (String.sub s 4 (n - 4)) with
     | [imports; funcs; body] ->
       EvBuild (s.[1] = '1', s.[2] = '1',
                { g_imports = parse_imports imports; g_funcs = List.map num (split_ne ',' funcs); g_body = parse_body body })
     | _ -> failwith "bad build event")
  else failwith ("bad event " ^ s)

let handle (f : string list) : string =
  match f with
  | "hist" :: imp :: globals :: events ->
    let st = { h_globals = parse_decls globals; h_members = parse_members imp } in
    String.concat " / " (List.map result_s (run () st (List.map parse_event events)))
  | ["QueryEscape"; h] -> optbytes (queryEscape (bytes_of_hex h))
  | ["onlyJSONWhitespace"; h] ->
    (match only_json_ws (bytes_of_hex h) with Some b -> "ok:" ^ bool_s b | None -> "panic")
  | ["trimJSONSpace"; h] -> optbytes (trim_json_space (bytes_of_hex h))
  | ["Abbreviate"; h; n] -> optbytes (abbreviate (bytes_of_hex h) (z_of_int (int_of_string n)))
  | ["RuneCount"; h] -> "ok:" ^ string_of_int (int_of_nat (rune_count (bytes_of_hex h)))
  | ["Runes"; h] -> "ok:" ^ dec_of_ns (decode_all (bytes_of_hex h))
  | ["Capitalize"; h; u] -> optbytes (capitalize (parse_uni u) (bytes_of_hex h))
  | ["CapitalizeAll"; h; u] -> "ok:" ^ dec_of_ns (capitalizeAll_runes (parse_uni u) (bytes_of_hex h))
  | ["ToKebab"; h; u] ->
    (match toKebab_runes (parse_uni u) (bytes_of_hex h) with Some r -> "ok:" ^ dec_of_ns r | None -> "panic")
  | ["check"; allow; tmpl; imp; globals; imports; funcs; body] ->
    let cfg = { c_importer = parse_importer imp; c_globals = parse_decls globals; c_allow_go = (allow = "1"); c_template = (tmpl = "1") } in
    let g = { g_imports = parse_imports imports; g_funcs = List.map num (split_ne ',' funcs); g_body = parse_body body } in
    result_s (check cfg g)
  | _ -> "driver-error:unknown-command"

let () = main_loop handle
