(* model driver for engine `misc` *)
let z_of_int (i : int) : z = if i = 0 then Z0 else if i > 0 then Zpos (pos_of_int i) else Zneg (pos_of_int (- i))

(* unicode table: "rune:flags:upper:lower;..."  flags: 1 upper, 2 lower, 4 digit, 8 letter, 16 space *)
let parse_uni (s : string) : unicode =
  let tbl = Hashtbl.create 16 in
  if s <> "" && s <> "-" then
    List.iter (fun e ->
      match String.split_on_char ':' e with
      | [r; f; u; l] -> Hashtbl.replace tbl (int_of_string r) (int_of_string f, int_of_string u, int_of_string l)
      | _ -> failwith "bad unicode entry") (String.split_on_char ';' s);
  let get r = try Hashtbl.find tbl (int_of_n r) with Not_found -> (0, int_of_n r, int_of_n r) in
  let flag b r = let (f, _, _) = get r in f land b <> 0 in
  { u_upper = flag 1; u_lower = flag 2; u_digit = flag 4; u_letter = flag 8; u_space = flag 16;
    u_to_upper = (fun r -> let (_, u, _) = get r in n_of_int u);
    u_to_lower = (fun r -> let (_, _, l) = get r in n_of_int l) }

let optbytes = function Some o -> "ok:" ^ hex_of_bytes o | None -> "panic"

let handle (f : string list) : string =
  match f with
  | ["QueryEscape"; h] -> optbytes (queryEscape (bytes_of_hex h))
  | ["onlyJSONWhitespace"; h] ->
    (match only_json_ws (bytes_of_hex h) with Some b -> "ok:" ^ bool_s b | None -> "panic")
  | ["trimJSONSpace"; h] -> optbytes (trim_json_space (bytes_of_hex h))
  | ["Abbreviate"; h; n] -> optbytes (abbreviate (bytes_of_hex h) (z_of_int (int_of_string n)))
  | ["RuneCount"; h] -> "ok:" ^ string_of_int (int_of_nat (rune_count (bytes_of_hex h)))
  | ["Runes"; h] -> "ok:" ^ dec_of_ns (decode_all (bytes_of_hex h))
  | ["Capitalize"; h; u] -> optbytes (capitalize (parse_uni u) (bytes_of_hex h))
  | ["CapitalizeAll"; h; u] -> "ok:" ^ dec_of_ns (capitalizeAll_runes (parse_uni u) (bytes_of_hex h))
  | ["ToKebab"; h; u] ->
    (match toKebab_runes (parse_uni u) (bytes_of_hex h) with Some r -> "ok:" ^ dec_of_ns r | None -> "panic")
  | _ -> "driver-error:unknown-command"

let () = main_loop handle
