(* model driver for engine `misc` *)
let z_of_int (i : int) : z = if i = 0 then Z0 else if i > 0 then Zpos (pos_of_int i) else Zneg (pos_of_int (- i))

(* unicode table: "rune:flags:upper:lower;..."  flags: 1 upper, 2 lower, 4 digit, 8 letter, 16 space *)
let parse_uni (s : string) : unicode =
  let tbl = Hashtbl.create 16 in
  if s <> "" && s <> "-" then
    List.iter (fun e ->
      match String.split_on_char ':' e with
      | [r; f; u; l] -> Hashtbl.replace tbl (int_of_string r) (int_of_string f, int_of_string u, int_of_string l)
      | _ -> failwith "bad unicode entry") (String.split_on_char ';' s);
  let get r = try Hashtbl.find tbl (int_of_n r) with Not_found -> (0, int_of_n r, int_of_n r) in
  let flag b r = let (f, _, _) = get r in f land b <> 0 in
  { u_upper = flag 1; u_lower = flag 2; u_digit = flag 4; u_letter = flag 8; u_space = flag 16;
    u_to_upper = (fun r -> let (_, u, _) = get r in n_of_int u);
    u_to_lower = (fun r -> let (_, _, l) = get r in n_of_int l) }

let optbytes = function Some o -> "ok:" ^ hex_of_bytes o | None -> "panic"

(* ---- C19: configuration and program of the resolution model ---- *)
let split_ne c s = if s = "" || s = "-" then [] else String.split_on_char c s
let num s = n_of_int (int_of_string s)

let parse_decls s = List.map (fun d -> match String.split_on_char '=' d with
  | [k; v] -> (num k, num v) | _ -> failwith "bad decl") (split_ne ',' s)

let parse_importer s : n -> package option =
  let tbl = List.map (fun e -> match String.split_on_char ':' e with
    | [p; nm; ds] -> (int_of_string p, { p_name = num nm; p_decls = parse_decls ds })
    | _ -> failwith "bad importer entry") (split_ne ';' s) in
  fun p -> List.assoc_opt (int_of_n p) tbl

let parse_imports s = List.map (fun e -> match String.split_on_char ':' e with
  | [f; a; p] ->
    let form = (match f with "d" -> IDefault | "n" -> IName (num a) | "b" -> IBlank | "p" -> IDot | _ -> failwith "bad form") in
    (form, num p)
  | _ -> failwith "bad import") (split_ne ';' s)

let parse_body s : stmt list =
  let toks = ref (List.filter (fun t -> t <> "" && t <> "-") (String.split_on_char ' ' s)) in
  let next () = match !toks with t :: r -> toks := r; t | [] -> failwith "unexpected end of body" in
  let parse_ref () = match next () with
    | "i" -> RId (num (next ()))
    | "s" -> let p = num (next ()) in let x = num (next ()) in RSel (p, x)
    | _ -> failwith "bad ref" in
  let rec parse_list () : stmt list =
    match !toks with
    | [] -> []
    | "]" :: r -> toks := r; []
    | _ -> let st = parse_stmt () in st :: parse_list ()
  and parse_stmt () : stmt =
    match next () with
    | "c" -> SCall (parse_ref ())
    | "g" -> SGo (parse_ref ())
    | "d" -> SDefer (parse_ref ())
    | "b" -> let x = num (next ()) in
      (match next () with "[" -> SBlock (x, parse_list ()) | _ -> failwith "expected [")
    | t -> failwith ("bad statement " ^ t) in
  parse_list ()

let sort_uniq_ns (l : n list) = List.sort_uniq compare (List.map int_of_n l)
let ints l = String.concat "," (List.map string_of_int l)

let error_s (e : error) = match e with
  | ECannotFindPackage p -> "cfp:" ^ string_of_int (int_of_n p)
  | EUndefined -> "undefined"
  | EGoNotAvailable -> "go"
  | ENotCallable -> "notcallable"
  | EPackageWithoutSelector -> "pkgnosel"
  | ERedeclared -> "redeclared"
  | EUnusedImport p -> "unused:" ^ string_of_int (int_of_n p)

let handle (f : string list) : string =
  match f with
  | ["QueryEscape"; h] -> optbytes (queryEscape (bytes_of_hex h))
  | ["onlyJSONWhitespace"; h] ->
    (match only_json_ws (bytes_of_hex h) with Some b -> "ok:" ^ bool_s b | None -> "panic")
  | ["trimJSONSpace"; h] -> optbytes (trim_json_space (bytes_of_hex h))
  | ["Abbreviate"; h; n] -> optbytes (abbreviate (bytes_of_hex h) (z_of_int (int_of_string n)))
  | ["RuneCount"; h] -> "ok:" ^ string_of_int (int_of_nat (rune_count (bytes_of_hex h)))
  | ["Runes"; h] -> "ok:" ^ dec_of_ns (decode_all (bytes_of_hex h))
  | ["Capitalize"; h; u] -> optbytes (capitalize (parse_uni u) (bytes_of_hex h))
  | ["CapitalizeAll"; h; u] -> "ok:" ^ dec_of_ns (capitalizeAll_runes (parse_uni u) (bytes_of_hex h))
  | ["ToKebab"; h; u] ->
    (match toKebab_runes (parse_uni u) (bytes_of_hex h) with Some r -> "ok:" ^ dec_of_ns r | None -> "panic")
  | ["check"; allow; tmpl; imp; globals; imports; funcs; body] ->
    let cfg = { c_importer = parse_importer imp; c_globals = parse_decls globals; c_allow_go = (allow = "1"); c_template = (tmpl = "1") } in
    let g = { g_imports = parse_imports imports; g_funcs = List.map num (split_ne ',' funcs); g_body = parse_body body } in
    (match check cfg g with
     | Inl o -> "ok:" ^ ints (sort_uniq_ns o.o_natives) ^ "|" ^ ints (sort_uniq_ns o.o_asked) ^ "|"
                ^ (if int_of_n o.o_prints > 0 then "print" else "noprint")
     | Inr e -> "err:" ^ error_s e)
  | _ -> "driver-error:unknown-command"

let () = main_loop handle
