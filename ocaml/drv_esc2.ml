(* model driver for engine `esc2`: the URL attribute machine (UrlStepM) and the Tag context (TagM)
   urlrun  KIND  OPS          KIND = two characters t/f: quoted, set; OPS = items joined by ';':
                              T:hex (text)  S:hex (string value)  H:hex (value of type native.HTML)
             -> per operation  q a r : hex-of-output   joined by ','   (state after the operation), or `fault`
                followed by ` qpos=` one character per value: 1 when UrlStepM.query_pos says query position
   tag     hex                -> ok:hex of the text written by showInTag
   tagscan hex                -> inside:N (the reference scanner from TBefore stays inside the tag, N attributes) or other:0
   tagrunes FROM COUNT        -> the ranges of replaced runes *)
let b c = (c = 't')
let parse_op (s : string) : uop =
  let h = String.sub s 2 (String.length s - 2) in
  match s.[0] with
  | 'T' -> UTxt (bytes_of_hex h)
  | 'S' -> UVal (bytes_of_hex h, false)
  | 'H' -> UVal (bytes_of_hex h, true)
  | _ -> failwith "bad op"
let parse_ops (f : string) : uop list =
  if f = "" then [] else List.map parse_op (String.split_on_char ';' f)
let bit x = if x then "1" else "0"
let handle (f : string list) : string =
  match f with
  | ["urlrun"; kind; opsf] ->
    let k = { a_quoted = b kind.[0]; a_set = b kind.[1] } in
    let ops = parse_ops opsf in
    let rec go st ops before acc qp =
      match ops with
      | [] -> (List.rev acc, qp)
      | o :: r ->
        let qp' = (match o with UVal _ -> qp ^ bit (query_pos k.a_set (List.rev before)) | _ -> qp) in
        (match url_step k st o with
         | (st1, UOut out) ->
           go st1 r (o :: before) ((bit st1.u_query ^ bit st1.u_amp ^ bit st1.u_remq ^ ":" ^ hex_of_bytes out) :: acc) qp'
         | (_, UFault) -> (List.rev ("fault" :: acc), qp')) in
    let (parts, qp) = go u0 ops [] [] "" in
    String.concat "," parts ^ " qpos=" ^ qp
  | ["tag"; h] ->
    (match showInTag_text (bytes_of_hex h) with Some x -> "ok:" ^ hex_of_bytes x | None -> "out-of-fuel")
  | ["tagscan"; h] ->
    let (st, n) = trun TBefore (bytes_of_hex h) O in
    (match st with TBefore | TName | TAfter -> "inside:" ^ string_of_int (int_of_nat n) | TValue | TOut -> "other:0")
  | ["tagrunes"; from; count] ->
    dec_of_ns (bad_ranges (nat_of_int (int_of_string count)) (n_of_int (int_of_string from)) None)
  | _ -> "driver-error:unknown-command"

let () = main_loop handle
