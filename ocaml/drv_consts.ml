(* model driver for engine `consts`: every field is handed to the Coq function
   consts_handle as a list of byte values; the result is the bytes it returns.
   A `line` case carries the whole TAB separated case hex-encoded (the form the
   in-Coq cross-check uses). *)
let bytes_of_string (s : string) : n list =
  let rec go i acc = if i < 0 then acc else go (i - 1) (n_of_int (Char.code s.[i]) :: acc) in
  go (String.length s - 1) []
let string_of_bytes (l : n list) : string =
  let b = Buffer.create 64 in
  List.iter (fun x -> Buffer.add_char b (Char.chr (int_of_n x))) l;
  Buffer.contents b

let handle (f : string list) : string =
  match f with
  | ["line"; h] ->
    (match consts_line (bytes_of_hex h) with
     | Some o -> "ok:" ^ hex_of_bytes o
     | None -> "panic")
  | _ -> string_of_bytes (consts_handle (List.map bytes_of_string f))

let () = main_loop handle
