(* model driver for engine `paths` *)
let split_on c s = if s = "" then [] else String.split_on_char c s

let kind_of_char = function
  | 'E' -> KExtends | 'I' -> KImport | 'R' -> KRender | 'D' -> KDefault
  | _ -> failwith "bad kind"

let parse_ref (s : string) =
  (kind_of_char s.[0], bytes_of_hex (String.sub s 1 (String.length s - 1)))

let parse_file (s : string) =
  match String.index_opt s '=' with
  | None -> failwith "bad file"
  | Some i ->
    let name = bytes_of_hex (String.sub s 0 i) in
    let spec = String.sub s (i + 1) (String.length s - i - 1) in
    let f =
      match spec.[0] with
      | 'o' -> FOpenErr (spec.[1] = '1')
      | 'r' -> FReadErr (spec.[1] = '1')
      | 's' -> FSyntax
      | 'f' ->
        (match String.split_on_char ':' (String.sub spec 1 (String.length spec - 1)) with
         | [fmt; d; refs] ->
           FSource (n_of_int (int_of_string fmt), d = "1", List.map parse_ref (split_on ',' refs))
         | _ -> failwith "bad source spec")
      | _ -> failwith "bad spec"
    in
    (name, f)

let parse_graph (s : string) = List.map parse_file (split_on '|' s)

let opens_s l =
  String.concat "," (List.map (fun (nm, ok) -> hex_of_bytes nm ^ ":" ^ (if ok then "1" else "0")) l)

let parse_class root (r : (n list) list res) =
  match r with
  | Ok _ -> "ok"
  | Err e ->
    (match e with
     | EInvalid -> "invalid"
     | ENotExist -> "notexist"
     | EFs -> "fs"
     | ESyntax -> "syntax"
     | ENoFile (k, rp) -> "nofile:" ^ (match k with KExtends -> "extends" | _ -> "render") ^ ":" ^ hex_of_bytes rp
     | ECycle (p, chain) -> "cycle:" ^ hex_of_bytes p ^ ":" ^ hex_of_bytes (cycle_message root chain)
     | EExtendsNotAllowed -> "extnotallowed"
     | EConflict -> "conflict"
     | EFormat -> "format"
     | EFault -> "fault"
     | EOutOfFuel -> "outoffuel")

let build_class root (r : (n list) list res) =
  match r with
  | Ok [] -> "ok"
  | Ok _ -> "other"
  | Err e ->
    (match e with
     | EInvalid -> "invalid"
     | ENotExist -> "notexist"
     | EFs -> "fs"
     | ECycle (_, _) -> parse_class root r
     | _ -> "other")

let handle (f : string list) : string =
  match f with
  | ["clean"; h] -> "ok:" ^ hex_of_bytes (clean (bytes_of_hex h))
  | ["dir"; h] -> "ok:" ^ hex_of_bytes (path_dir (bytes_of_hex h))
  | ["join"; a; b] -> "ok:" ^ hex_of_bytes (path_join [bytes_of_hex a; bytes_of_hex b])
  | ["isabs"; h] -> bool_s (is_abs (bytes_of_hex h))
  | ["validpath"; h] -> bool_s (fs_valid (bytes_of_hex h))
  | ["validtpath"; h] -> bool_s (valid_template_path (bytes_of_hex h))
  | ["rooted"; p; nm] ->
    (match rooted (bytes_of_hex p) (bytes_of_hex nm) with
     | Some r -> "ok:" ^ hex_of_bytes r
     | None -> "notexist")
  | ["expand"; root; g] ->
    let root = bytes_of_hex root in
    let o = parse_template (parse_graph g) root in
    let ops = opens_s o.out_opens in
    "opens=" ^ ops ^ ";parse=" ^ parse_class root o.out_result
    ^ ";bopens=" ^ ops ^ ";build=" ^ build_class root o.out_result
  | _ -> "driver-error:unknown-command"

let () = main_loop handle
