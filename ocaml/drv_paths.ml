(* model driver for engine `paths` *)
let split_on c s = if s = "" then [] else String.split_on_char c s

let kind_of_char = function
  | 'E' -> KExtends | 'I' -> KImport | 'R' -> KRender | 'D' -> KDefault
  | _ -> failwith "bad kind"

let parse_ref (s : string) =
  (kind_of_char s.[0], bytes_of_hex (String.sub s 1 (String.length s - 1)))

let parse_file (s : string) =
  match String.index_opt s '=' with
  | None -> failwith "bad file"
  | Some i ->
    let name = bytes_of_hex (String.sub s 0 i) in
    let spec = String.sub s (i + 1) (String.length s - i - 1) in
    let f =
      match spec.[0] with
      | 'o' -> FOpenErr (spec.[1] = '1')
      | 'r' -> FReadErr (spec.[1] = '1')
      | 's' -> FSyntax
      | 'f' ->
        (match String.split_on_char ':' (String.sub spec 1 (String.length spec - 1)) with
         | [fmt; d; refs] ->
           FSource (n_of_int (int_of_string fmt), d = "1", List.map parse_ref (split_on ',' refs))
         | _ -> failwith "bad source spec")
      | _ -> failwith "bad spec"
    in
    (name, f)

let parse_graph (s : string) = List.map parse_file (split_on '|' s)

let opens_s l =
  String.concat "," (List.map (fun (nm, ok) -> hex_of_bytes nm ^ ":" ^ (if ok then "1" else "0")) l)

let parse_class root (r : (n list) list res) =
  match r with
  | Ok _ -> "ok"
  | Err e ->
    (match e with
     | EInvalid -> "invalid"
     | ENotExist -> "notexist"
     | EFs -> "fs"
     | ESyntax -> "syntax"
     | ENoFile (k, rp) -> "nofile:" ^ (match k with KExtends -> "extends" | _ -> "render") ^ ":" ^ hex_of_bytes rp
     | ECycle (p, chain) -> "cycle:" ^ hex_of_bytes p ^ ":" ^ hex_of_bytes (cycle_message root chain)
     | EExtendsNotAllowed -> "extnotallowed"
     | EConflict -> "conflict"
     | EFormat -> "format"
     | EFault -> "fault"
     | EOutOfFuel -> "outoffuel")

let build_class root (r : (n list) list res) =
  match r with
  | Ok [] -> "ok"
  | Ok _ -> "other"
  | Err e ->
    (match e with
     | EInvalid -> "invalid"
     | ENotExist -> "notexist"
     | EFs -> "fs"
     | ECycle (_, _) -> parse_class root r
     | _ -> "other")

(* ---- C17: template variables ---- *)

let bytes_of_string (s : string) : n list =
  List.init (String.length s) (fun i -> n_of_int (Char.code s.[i]))
let string_of_bytes (l : n list) : string =
  String.concat "" (List.map (fun x -> String.make 1 (Char.chr (int_of_n x))) l)

(* items: <count> { r <site> <name> | l <nups> { n:<name> | o }* <items> }* *)
let rec parse_items (toks : string list) : item list * string list =
  match toks with
  | cnt :: rest -> parse_n (int_of_string cnt) rest
  | [] -> failwith "items"
and parse_n k toks =
  if k = 0 then ([], toks)
  else
    let (it, rest) = parse_item toks in
    let (its, rest') = parse_n (k - 1) rest in
    (it :: its, rest')
and parse_item toks =
  match toks with
  | "r" :: site :: name :: rest -> (IRef (n_of_int (int_of_string site), bytes_of_string name), rest)
  | "l" :: nups :: rest ->
    let rec ups k toks =
      if k = 0 then ([], toks)
      else match toks with
        | "o" :: r -> let (u, r') = ups (k - 1) r in (UOther :: u, r')
        | t :: r when String.length t > 2 && String.sub t 0 2 = "n:" ->
          let (u, r') = ups (k - 1) r in
          (UNative (bytes_of_string (String.sub t 2 (String.length t - 2))) :: u, r')
        | _ -> failwith "upvar"
    in
    let (u, rest1) = ups (int_of_string nups) rest in
    let (body, rest2) = parse_items rest1 in
    (ILit (u, body), rest2)
  | _ -> failwith "item"

let parse_tops (s : string) : item list list =
  match List.filter (fun t -> t <> "") (String.split_on_char ' ' s) with
  | cnt :: rest ->
    let rec go k toks = if k = 0 then [] else let (b, r) = parse_items toks in b :: go (k - 1) r in
    go (int_of_string cnt) rest
  | [] -> []

let parse_decls (s : string) =
  List.map (fun d ->
      match String.split_on_char ':' d with
      | [name; ty; zero; addr] ->
        (bytes_of_string name,
         { d_type = n_of_int (int_of_string ty); d_zero = bytes_of_hex zero;
           d_addr = (if addr = "-" then None else Some (n_of_int (int_of_string addr))) })
      | _ -> failwith "decl") (split_on '|' s)

let parse_vars (s : string) =
  List.map (fun v ->
      match String.index_opt v '=' with
      | None -> failwith "var"
      | Some i ->
        let name = bytes_of_string (String.sub v 0 i) in
        let spec = String.sub v (i + 1) (String.length v - i - 1) in
        let rest = String.sub spec 1 (String.length spec - 1) in
        let iv =
          match spec.[0] with
          | 'V' -> (match String.split_on_char ':' rest with
              | [ty; t] -> IVal (n_of_int (int_of_string ty), bytes_of_hex t) | _ -> failwith "V")
          | 'P' -> (match String.split_on_char ':' rest with
              | [ty; a] -> IPtr (n_of_int (int_of_string ty), n_of_int (int_of_string a)) | _ -> failwith "P")
          | 'Q' -> INilPtr (n_of_int (int_of_string rest))
          | 'N' -> INil
          | _ -> failwith "var spec"
        in
        (name, iv)) (split_on '|' s)

let parse_mem (s : string) =
  List.map (fun m ->
      match String.split_on_char ':' m with
      | [a; t] -> (n_of_int (int_of_string a), bytes_of_hex t)
      | _ -> failwith "mem") (split_on ',' s)

let parse_events (s : string) =
  List.map (fun e ->
      let body = String.sub e 1 (String.length e - 1) in
      match e.[0] with
      | 's' -> TShow (n_of_int (int_of_string body))
      | 'w' -> (match String.split_on_char ':' body with
          | [site; t] -> TSet (n_of_int (int_of_string site), bytes_of_hex t) | _ -> failwith "w")
      | _ -> failwith "event") (split_on ',' s)

let vars_result decls tops vars mem evs =
  let st = emit_prog true decls tops in
  let gl = List.sort compare (List.map (fun g -> string_of_bytes g.g_pkg ^ "." ^ string_of_bytes g.g_name) st.globals) in
  let head = "globals=" ^ String.concat "," gl ^ ";used=" ^ String.concat "," (List.map string_of_bytes (used_vars st)) in
  match run_model true decls tops vars mem evs with
  | RPanic (name, p) ->
    head ^ ";panic=" ^ (match p with PAlreadyInit -> "already" | PNilInit -> "nil" | PWrongType -> "wrongtype" | PNilPointer -> "nilptr")
    ^ ":" ^ string_of_bytes name
  | RFault -> head ^ ";fault"
  | RDone (out, m) ->
    let o = String.concat "" (List.map (fun t -> string_of_bytes t ^ "|") out) in
    let ms = List.sort compare (List.map (fun (a, t) -> (int_of_n a, t)) m) in
    head ^ ";out=" ^ hex_of_bytes (bytes_of_string o)
    ^ ";mem=" ^ String.concat "," (List.map (fun (a, t) -> string_of_int a ^ ":" ^ hex_of_bytes t) ms)

let handle (f : string list) : string =
  match f with
  | ["clean"; h] -> "ok:" ^ hex_of_bytes (clean (bytes_of_hex h))
  | ["dir"; h] -> "ok:" ^ hex_of_bytes (path_dir (bytes_of_hex h))
  | ["join"; a; b] -> "ok:" ^ hex_of_bytes (path_join [bytes_of_hex a; bytes_of_hex b])
  | ["isabs"; h] -> bool_s (is_abs (bytes_of_hex h))
  | ["validpath"; h] -> bool_s (fs_valid (bytes_of_hex h))
  | ["validtpath"; h] -> bool_s (valid_template_path (bytes_of_hex h))
  | ["rooted"; p; nm] ->
    (match rooted (bytes_of_hex p) (bytes_of_hex nm) with
     | Some r -> "ok:" ^ hex_of_bytes r
     | None -> "notexist")
  | ["expand"; root; g] ->
    let root = bytes_of_hex root in
    let o = parse_template (parse_graph g) root in
    let ops = opens_s o.out_opens in
    "opens=" ^ ops ^ ";parse=" ^ parse_class root o.out_result
    ^ ";bopens=" ^ ops ^ ";build=" ^ build_class root o.out_result
  | ["vars"; decls; tops; vars; mem; evs] ->
    vars_result (parse_decls decls) (parse_tops tops) (parse_vars vars) (parse_mem mem) (parse_events evs)
  | _ -> "driver-error:unknown-command"

let () = main_loop handle
