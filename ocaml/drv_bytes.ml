(* model driver for engine `bytes` *)
let handle (f : string list) : string =
  match f with
  | ["HTMLEscape"; h] ->
    (match hTMLEscape (bytes_of_hex h) with
     | Some o -> "ok:" ^ hex_of_bytes o
     | None -> "panic")
  | ["html_decode"; h] -> "ok:" ^ hex_of_bytes (html_decode (bytes_of_hex h))
  | _ -> "driver-error:unknown-command"

let () = main_loop handle
