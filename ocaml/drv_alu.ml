(* model driver for engine `alu`: decimal Z <-> extracted Z *)
let z_of_int (i : int) : z = if i = 0 then Z0 else if i > 0 then Zpos (pos_of_int i) else Zneg (pos_of_int (- i))
let ten = z_of_int 10
let z_of_dec (s : string) : z =
  let neg = String.length s > 0 && s.[0] = '-' in
  let start = if neg then 1 else 0 in
  let acc = ref Z0 in
  for i = start to String.length s - 1 do
    acc := Z.add (Z.mul !acc ten) (z_of_int (Char.code s.[i] - 48))
  done;
  if neg then Z.opp !acc else !acc
let rec int_of_z_small (x : z) : int = match x with Z0 -> 0 | Zpos p -> int_of_pos p | Zneg p -> - (int_of_pos p)
let dec_of_z (x : z) : string =
  if x = Z0 then "0" else begin
    let neg = Z.ltb x Z0 in
    let v = ref (if neg then Z.opp x else x) in
    let b = Buffer.create 24 in
    while !v <> Z0 do
      let (q, r) = Z.quotrem !v ten in
      Buffer.add_char b (Char.chr (48 + int_of_z_small r));
      v := q
    done;
    let s = Buffer.contents b in
    let n = String.length s in
    (if neg then "-" else "") ^ String.init n (fun i -> s.[n - 1 - i])
  end

let binop_of = function
  | "Add" -> Add | "Sub" -> Sub | "Mul" -> Mul | "Quo" -> Quo | "Rem" -> Rem | "And" -> And | "Or" -> Or
  | "Xor" -> Xor | "AndNot" -> AndNot | "Shl" -> Shl | "Shr" -> Shr | _ -> failwith "binop"

(* result of the destination register decoded as a value of the kind's type *)
let show k (r : z option option) : string =
  match r with
  | None -> "no-instruction"
  | Some None -> "panic"
  | Some (Some v) ->
    (match kind_ity k with
     | Some t -> "ok:" ^ dec_of_z (wrap t v)
     | None -> "bad-kind")

let garbage = z_of_dec "-6148914691236517206"

let handle (f : string list) : string =
  match f with
  | ["binop"; op; k; x; y] -> let k = z_of_dec k in show k (vm_binop (binop_of op) k (z_of_dec x) (z_of_dec y) garbage)
  | ["neg"; k; y] -> let k = z_of_dec k in show k (vm_neg k (z_of_dec y) garbage)
  | ["subinv"; k; x; y] -> let k = z_of_dec k in show k (vm_subinv k (z_of_dec x) (z_of_dec y) garbage)
  | ["convert"; ks; kd; x] -> let kd = z_of_dec kd in show kd (vm_convert (z_of_dec ks) kd (z_of_dec x))
  | ["cmp"; c; k; x; y] ->
    let c = (match c with "Ceq" -> Ceq | "Cne" -> Cne | "Clt" -> Clt | "Cle" -> Cle | "Cgt" -> Cgt | "Cge" -> Cge | _ -> failwith "cmp") in
    (match vm_cmp c (z_of_dec k) (z_of_dec x) (z_of_dec y) with
     | Some (Some b) -> "ok:" ^ bool_s b | Some None -> "panic" | None -> "no-instruction")
  | ["gospec"; op; k; x; y] ->
    (match kind_ity (z_of_dec k) with
     | Some t -> (match bin (binop_of op) t (z_of_dec x) (z_of_dec y) with Some v -> "ok:" ^ dec_of_z v | None -> "panic")
     | None -> "bad-kind")
  | _ -> "driver-error:unknown-command"

let () = main_loop handle
