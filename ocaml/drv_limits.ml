(* model driver for engine `limits` *)
let z_of_int (i : int) : z = if i = 0 then Z0 else if i > 0 then Zpos (pos_of_int i) else Zneg (pos_of_int (- i))
let int_of_z (x : z) : int = match x with Z0 -> 0 | Zpos p -> int_of_pos p | Zneg p -> - (int_of_pos p)
let ints_of (s : string) : int list = if s = "" then [] else List.map int_of_string (String.split_on_char ',' s)
let show_ints l = String.concat "," (List.map string_of_int l)
let oz o = match o with Some v -> string_of_int (int_of_z v) | None -> "none"

let pool_of = function
  | "int" -> (gen_pool_IntValue, true) | "float" -> (gen_pool_FloatValue, true) | "string" -> (gen_pool_StringValue, true)
  | "general" -> (gen_pool_GeneralValue, true) | "fieldindex" -> (gen_pool_FieldIndex, true) | "type" -> (gen_pool_Type, true)
  | "function" -> (gen_pool_Function, false) | "native" -> (gen_pool_NativeFunction, false)
  | _ -> failwith "pool"

let handle (f : string list) : string =
  match f with
  | ["pool"; name; vals] ->
    let ((max, _), dedup) = pool_of name in
    let rec go pool vs acc =
      match vs with
      | [] -> "ok:" ^ show_ints (List.rev acc)
      | v :: r ->
        (match pool_add_Z dedup max pool (z_of_int v) with
         | None -> "limit:" ^ show_ints (List.rev acc)
         | Some (i, pool') -> go pool' r (int_of_z i :: acc))
    in go [] (ints_of vals) []
  | ["register"; n] ->
    let n = int_of_string n in
    let rec go num acc =
      if num >= n then "ok:" ^ show_ints (List.rev acc)
      else match new_register gen_newRegister_limit (z_of_int num) with
        | None -> "limit:" ^ show_ints (List.rev acc)
        | Some r -> go (num + 1) (int_of_z r :: acc)
    in go 0 []
  | ["enc"; "int16"; v] ->
    (match gen_c_encodeInt16 (Some (z_of_int (int_of_string v))) with
     | [a; b] -> (match gen_r_decodeInt16 a b with [r] -> "ok:" ^ oz a ^ "," ^ oz b ^ "," ^ oz r | _ -> "bad") | _ -> "bad")
  | ["enc"; "uint16"; v] ->
    (match gen_c_encodeUint16 (Some (z_of_int (int_of_string v))) with
     | [a; b] -> (match gen_r_decodeUint16 a b with [r] -> "ok:" ^ oz a ^ "," ^ oz b ^ "," ^ oz r | _ -> "bad") | _ -> "bad")
  | ["enc"; "uint24"; v] ->
    (match gen_c_encodeUint24 (Some (z_of_int (int_of_string v))) with
     | [a; b; c] -> (match gen_r_decodeUint24 a b c with [r] -> "ok:" ^ oz a ^ "," ^ oz b ^ "," ^ oz c ^ "," ^ oz r | _ -> "bad") | _ -> "bad")
  | ["enc"; "valueindex"; t; v] ->
    (match gen_c_encodeValueIndex (Some (z_of_int (int_of_string t))) (Some (z_of_int (int_of_string v))) with
     | [a; b] -> (match gen_r_decodeValueIndex a b with [t'; i] -> "ok:" ^ oz a ^ "," ^ oz b ^ "," ^ oz t' ^ "," ^ oz i | _ -> "bad") | _ -> "bad")
  | _ -> "driver-error:unknown-command"

let () = main_loop handle
