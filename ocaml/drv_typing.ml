(* model driver for engine typing: parses the prefix-token term of a MiniGo
   program (the grammar is in harness/cmd/h_typing/gen.go, method Term) and
   prints the verdict of the extracted checker tc. *)
let z_of_int (i : int) : z =
  if i = 0 then Z0 else if i > 0 then Zpos (pos_of_int i) else Zneg (pos_of_int (- i))
let z_of_string (s : string) : z =
  let neg = String.length s > 0 && s.[0] = '-' in
  let start = if neg then 1 else 0 in
  let acc = ref Z0 in
  let ten = z_of_int 10 in
  for i = start to String.length s - 1 do
    let d = Char.code s.[i] - 48 in
    if d < 0 || d > 9 then failwith ("bad number " ^ s);
    acc := Z.add (Z.mul !acc ten) (z_of_int d)
  done;
  if neg then Z.opp !acc else !acc
let pos_of_string (s : string) : positive =
  match z_of_string s with Zpos p -> p | _ -> failwith ("bad positive " ^ s)
let n_of_string (s : string) : n =
  match z_of_string s with Z0 -> N0 | Zpos p -> Npos p | _ -> failwith ("bad N " ^ s)

let toks : string array ref = ref [||]
let pos = ref 0
let next () = if !pos >= Array.length !toks then failwith "unexpected end of term" else (let t = (!toks).(!pos) in incr pos; t)
let peek () = if !pos >= Array.length !toks then "" else (!toks).(!pos)
let expect s = let t = next () in if t <> s then failwith ("expected " ^ s ^ " got " ^ t)

let basic_of = function
  | "bool" -> BBool | "string" -> BString | "int" -> BInt | "int8" -> BInt8 | "int16" -> BInt16
  | "int32" -> BInt32 | "int64" -> BInt64 | "uint" -> BUint | "uint8" -> BUint8 | "uint16" -> BUint16
  | "uint32" -> BUint32 | "uint64" -> BUint64 | "float64" -> BFloat64 | s -> failwith ("basic " ^ s)
let rec p_ty () =
  match next () with
  | "tb" -> TBasic (basic_of (next ()))
  | "tn" -> let i = n_of_string (next ()) in TNamed (i, basic_of (next ()))
  | "tp" -> TPtr (p_ty ())
  | "ts" -> TSlice (p_ty ())
  | "ta" -> let n = z_of_string (next ()) in TArray (n, p_ty ())
  | "tm" -> let k = p_ty () in let v = p_ty () in TMap (k, v)
  | "tst" -> TStruct (p_tys ())
  | "tf" -> let ps = p_tys () in let rs = p_tys () in TFunc (ps, rs)
  | "tany" -> TAny
  | "td" -> let i = n_of_string (next ()) in TDef (i, p_ty ())
  | s -> failwith ("type " ^ s)
and p_tys () =
  let k = int_of_string (next ()) in
  let rec go i = if i = 0 then [] else let x = p_ty () in x :: go (i - 1) in go k
let p_oty () = if peek () = "-" then (ignore (next ()); None) else Some (p_ty ())
let unop_of = function "plus" -> UPlus | "neg" -> UNeg | "not" -> UNot | "compl" -> UCompl | s -> failwith ("unop " ^ s)
let binop_of = function
  | "add" -> OAdd | "sub" -> OSub | "mul" -> OMul | "div" -> ODiv | "rem" -> ORem
  | "and" -> OAnd | "or" -> OOr | "xor" -> OXor | "andnot" -> OAndNot | "shl" -> OShl | "shr" -> OShr
  | "eq" -> OEq | "ne" -> ONe | "lt" -> OLt | "le" -> OLe | "gt" -> OGt | "ge" -> OGe
  | "land" -> OLAnd | "lor" -> OLOr | s -> failwith ("binop " ^ s)
let p_id () = n_of_string (next ())
let p_ids () =
  let k = int_of_string (next ()) in
  let rec go i = if i = 0 then [] else let x = p_id () in x :: go (i - 1) in go k

let rec p_expr () : expr =
  match next () with
  | "T" -> ELitB true | "F" -> ELitB false
  | "I" -> ELitI (z_of_string (next ()))
  | "R" -> ELitR (z_of_string (next ()))
  | "L" -> let a = z_of_string (next ()) in let d = pos_of_string (next ()) in ELitF (a, d)
  | "S" -> ELitS (p_id ())
  | "nil" -> ENilE
  | "V" -> EVar (p_id ())
  | "U" -> let o = unop_of (next ()) in EUn (o, p_expr ())
  | "O" -> let o = binop_of (next ()) in let a = p_expr () in let b = p_expr () in EBin (o, a, b)
  | "C" -> let t = p_ty () in EConv (t, p_expr ())
  | "A" -> let f = p_id () in ECall (f, p_exprs ())
  | "K" -> let p = p_id () in let f = p_id () in EPkg (p, f, p_exprs ())
  | "CL" -> let t = p_ty () in expect "<"; ECompLit (t, p_elts ())
  | "IX" -> let a = p_expr () in let i = p_expr () in EIndex (a, i)
  | "SL" -> let a = p_expr () in let lo = p_expr () in let hi = p_expr () in ESliceE (a, lo, hi)
  | "omit" -> EOmit
  | "AD" -> EAddr (p_expr ())
  | "DE" -> EDeref (p_expr ())
  | "SE" -> let i = p_id () in ESel (p_expr (), i)
  | "AS" -> let t = p_ty () in EAssert (p_expr (), t)
  | "B" ->
    (match next () with
     | "len" -> ELen (p_expr ())
     | "cap" -> ECap (p_expr ())
     | "append" -> let a = p_expr () in EAppend (a, p_exprs ())
     | "make" -> let t = p_ty () in EMake (t, p_exprs ())
     | "new" -> ENew (p_ty ())
     | "copy" -> let d = p_expr () in let a = p_expr () in ECopy (d, a)
     | "delete" -> let m = p_expr () in let k = p_expr () in EDelete (m, k)
     | s -> failwith ("builtin " ^ s))
  | s -> failwith ("expr " ^ s)
and p_elts () : elts =
  match next () with
  | ">" -> LNil
  | "p" -> let e = p_expr () in let r = p_elts () in LPos (e, r)
  | "i" -> let z = z_of_string (next ()) in let e = p_expr () in let r = p_elts () in LIdx (z, e, r)
  | "k" -> let k = p_expr () in let e = p_expr () in let r = p_elts () in LKey (k, e, r)
  | s -> failwith ("elt " ^ s)
and p_exprs () : exprs =
  expect "(";
  let rec go () = if peek () = ")" then (ignore (next ()); ENone) else (let e = p_expr () in let r = go () in ECons (e, r)) in
  go ()

let rec p_stmt () : stmt =
  match next () with
  | "var" -> let xs = p_ids () in let t = p_oty () in SVar (xs, t, p_exprs ())
  | "const" -> let x = p_id () in let t = p_oty () in SConst (x, t, p_expr ())
  | "short" -> let xs = p_ids () in SShort (xs, p_exprs ())
  | "assign" -> let xs = p_ids () in SAssign (xs, p_exprs ())
  | "opas" -> let x = p_id () in let o = binop_of (next ()) in SOpAssign (x, o, p_expr ())
  | "incdec" -> SIncDec (p_id ())
  | "expr" -> SExpr (p_expr ())
  | "if" -> let c = p_expr () in let a = p_block () in let b = p_block () in SIf (c, a, b)
  | "for" -> let c = p_expr () in SFor (c, p_block ())
  | "loop" -> SLoop (p_block ())
  | "switch" -> let t = p_expr () in let cs = p_clauses () in SSwitch (t, cs, p_block ())
  | "return" -> SReturn (p_exprs ())
  | "break" -> SBreak
  | "continue" -> SContinue
  | "block" -> SBlock (p_block ())
  | "set" -> let l = p_expr () in let e = p_expr () in SSet (l, e)
  | "range" ->
    let k = p_id () in let v = p_id () in let d = next () = "1" in
    let e = p_expr () in SRange (k, v, d, e, p_block ())
  | s -> failwith ("stmt " ^ s)
and p_block () : block =
  expect "{";
  let rec go () = if peek () = "}" then (ignore (next ()); BNil) else (let s = p_stmt () in let r = go () in BCons (s, r)) in
  go ()
and p_clauses () : clauses =
  expect "[";
  let rec go () =
    if peek () = "]" then (ignore (next ()); CNil)
    else (expect "case"; let es = p_exprs () in let b = p_block () in let r = go () in CCons (es, b, r)) in
  go ()

let p_list (f : unit -> 'a) : 'a list =
  let k = int_of_string (next ()) in
  let rec go i = if i = 0 then [] else let x = f () in x :: go (i - 1) in go k

let p_program () : program =
  expect "P";
  let imps = p_list p_id in
  let gs = p_list (fun () ->
    match next () with
    | "gc" -> let x = p_id () in let t = p_oty () in GConst (x, t, p_expr ())
    | "gv" -> let x = p_id () in let t = p_oty () in GVar (x, t, p_expr ())
    | s -> failwith ("gdecl " ^ s)) in
  let fs = p_list (fun () ->
    expect "fn";
    let name = p_id () in
    let ps = p_list (fun () -> let x = p_id () in let t = p_ty () in (x, t)) in
    let rs = p_list p_ty in
    let b = p_block () in
    { fn_name = name; fn_params = ps; fn_results = rs; fn_body = b }) in
  let m = p_block () in
  { p_imports = imps; p_globals = gs; p_funcs = fs; p_main = m }

let set_input (s : string) =
  toks := Array.of_list (List.filter (fun t -> t <> "") (String.split_on_char ' ' s));
  pos := 0

let handle (f : string list) : string =
  match f with
  | ["tc"; term] ->
    set_input term;
    let p = p_program () in
    if !pos <> Array.length !toks then failwith "trailing tokens";
    if tc p then "accept" else "reject"
  | _ -> "driver-error:unknown-command"

let () = main_loop handle
