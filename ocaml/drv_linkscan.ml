(* model driver for engine `linkscan`: the whole of linkdestination.go's scanner and replace *)
let show (o : n list option) : string =
  match o with
  | Some b -> "ok:" ^ hex_of_bytes b
  | None -> "panic"

let handle (f : string list) : string =
  match f with
  | ["linkScan"; s; t] | ["linkScanL"; s; t] -> show (linkscan_wire (bytes_of_hex s) (bytes_of_hex t))
  | ["linkCands"; s] -> show (linkcands_wire (bytes_of_hex s))
  | _ -> "driver-error:unknown-command"

let () = main_loop handle
