(* model driver for engine `mdshow`: renderer.Show in the Markdown contexts
   (type dispatch tables generated from renderer.go + the escaper models) *)
let show_showres (r : showres) : string =
  match r with
  | ROk o -> "ok:" ^ hex_of_bytes o
  | RCannotShow -> "cannot-show"
  | REscErr c -> "err:" ^ string_of_int (int_of_n c)
  | RFault -> "panic"
  | RFuel -> "out-of-fuel"
  | RStuck -> "stuck"

let handle (f : string list) : string =
  match f with
  | ["mdshow"; ctx; kind; flags; tv; tt; ts; tse; te; tm; tme; th; the] ->
    show_showres (md_show_flat (n_of_int (int_of_string ctx)) (n_of_int (int_of_string kind)) (n_of_int (int_of_string flags))
      (bytes_of_hex tv) (bytes_of_hex tt) (bytes_of_hex ts) (bytes_of_hex tse) (bytes_of_hex te)
      (bytes_of_hex tm) (bytes_of_hex tme) (bytes_of_hex th) (bytes_of_hex the))
  | _ -> "driver-error:unknown-command"

let () = main_loop handle
